"""C21 -- upstream dataflow of arguments is recorded (structural clauses).

The bookkeeping consumed by _find_arg_upstreams must be produced for every
expression kind on every evaluation path, including the in-job deduplication
path; arguments are recorded from the evaluated values, defaults as keywords.
"""

from __future__ import annotations

import ast

from ..core import AnalysisError, FuncNode, assigned_targets, call_name, calls_in, kwarg, last_attr, names_in, src
from ..cfg import CFG, facts_at
from ..tables import if_chain

EXPLANATION = (
    "C21.1 consumer/producer dispatch agreement: _find_arg_upstreams (consumer) and the deduplication callback in _evaluate_apply "
    "(producer) are read as isinstance decision lists and evaluated for every concrete ApplyExpression class through the class hierarchy; "
    "the field the consumer reads for a kind must be among the fields the producer copies for that kind; C21.2 Job.resolve/reject publish "
    "call_hash on the expression under recording_provenance, ApplyExpression keeps _upstreams=[args,kwargs], derive_expression and catch "
    "rewire _upstreams; C21.3 _record_args records evaluated values, positions/keys, defaults as keyword arguments, and upstreams from the "
    "expression arguments."
)

SCHED = "redun/scheduler.py"
DB = "redun/backends/db/__init__.py"
EXPR = "redun/expression.py"


def _isinstance_eval(test: ast.AST, var: str, kind_mro: set[str]):
    """Evaluate a test made of isinstance(var, C) atoms / not / and / or for a concrete class."""
    if isinstance(test, ast.BoolOp):
        vals = [_isinstance_eval(v, var, kind_mro) for v in test.values]
        return all(vals) if isinstance(test.op, ast.And) else any(vals)
    if isinstance(test, ast.UnaryOp) and isinstance(test.op, ast.Not):
        return not _isinstance_eval(test.operand, var, kind_mro)
    if isinstance(test, ast.Call) and call_name(test) == "isinstance" and len(test.args) == 2 and src(test.args[0]) == var:
        c = test.args[1]
        names = [src(e) for e in c.elts] if isinstance(c, ast.Tuple) else [src(c)]
        return any(n.split(".")[-1] in kind_mro for n in names)
    # an atom that is not an isinstance test of the dispatched variable (e.g. a visited-set guard): it may hold, so it does not exclude the arm
    return True


def _chain_of(stmts: list[ast.stmt]):
    for st in stmts:
        if isinstance(st, ast.If):
            fake = ast.FunctionDef(name="x", args=None, body=[st], decorator_list=[])
            return if_chain(fake)
    raise AnalysisError("no if-chain")


def run(ctx):
    repo = ctx.repo
    sm, db, em = repo.mod(SCHED), repo.mod(DB), repo.mod(EXPR)

    kinds = {}
    apply_cls = em.cls("ApplyExpression")
    for m, c in repo.subclasses(apply_cls, strict=True):
        kinds[c.name] = {cc.name for _, cc in repo.mro(m, c)}
    if len(kinds) < 3:
        raise AnalysisError(f"expected >= 3 concrete ApplyExpression classes, found {sorted(kinds)}", "ApplyExpression")

    r1 = ctx.rule("C21.1", "field consumed by _find_arg_upstreams for a kind is copied by the dedup callback for that kind", floor=3)
    # consumer
    fau = db.func("RedunBackendDb._find_arg_upstreams")
    loop = next((n for n in ast.walk(fau) if isinstance(n, ast.For)), None)
    if loop is None:
        raise AnalysisError("_find_arg_upstreams: loop not found", "RedunBackendDb._find_arg_upstreams")
    cvar = src(loop.target)
    cchain = _chain_of(loop.body)

    def consumed(kind: str):
        for test, body in cchain:
            if test is None or _isinstance_eval(test, cvar, kinds[kind] | {"Expression", "Value"}):
                t = " ".join(src(b) for b in body)
                fields = [f for f in ("call_hash", "_upstreams") if f"{cvar}.{f}" in t]
                return fields
        return []

    # producer
    # the nested function of _evaluate_apply that copies the bookkeeping: the one holding the isinstance dispatch with `<dup>.<field> = <orig>.<field>` arms
    cb = None
    cbs: list = []  # every local function that holds the copy (one shared helper, or the copy written out in both callbacks)
    for q, f in sm.funcs.items():
        if q.startswith("Scheduler._evaluate_apply.") and q.count(".") == 2:
            if any(isinstance(n, ast.If) and any(isinstance(c, ast.Call) and call_name(c) == "isinstance" for c in ast.walk(n.test)) and any(isinstance(b, ast.Assign) and isinstance(b.targets[0], ast.Attribute) and b.targets[0].attr in ("call_hash", "_upstreams") for b in n.body) for n in f.body):
                cb = f
                cbq = q
                cbs.append(f)
    if cb is None:
        raise AnalysisError("dedup bookkeeping copy not found in _evaluate_apply", "Scheduler._evaluate_apply.callback")
    pchain = if_chain(cb)
    pvar = None
    for test, _ in pchain:
        if test is not None:
            for c in ast.walk(test):
                if isinstance(c, ast.Call) and call_name(c) == "isinstance":
                    pvar = src(c.args[0])
    if pvar is None:
        raise AnalysisError("dedup callback: isinstance dispatch not found", "Scheduler._evaluate_apply.callback")

    def produced(kind: str):
        for test, body in pchain:
            if test is None or _isinstance_eval(test, pvar, kinds[kind] | {"Expression", "Value"}):
                out = []
                for b in body:
                    if isinstance(b, ast.Assign):
                        for t in b.targets:
                            if isinstance(t, ast.Attribute) and src(b.value) == f"{pvar}.{t.attr}":
                                out.append(t.attr)
                    if isinstance(b, ast.Raise):
                        out.append("<raise>")
                return out
        return []

    table = {}
    for kind in sorted(kinds):
        need, have = consumed(kind), produced(kind)
        table[kind] = {"consumer_reads": need, "dedup_copies": have}
        ok = bool(need) and all(f in have for f in need)
        r1.check(
            ok,
            f"{sm.rel}:{cbq}:{kind}",
            f"for a deduplicated {kind}, _find_arg_upstreams reads {need} but the dedup callback copies {have}: the duplicate's upstream call "
            "nodes are not linked to the argument it feeds",
            sm.rel,
            cb.lineno,
            note=f"reads {need}, copies {have}",
        )
    # the copy must run whether the original call succeeds or fails: a failed call has a call node too, and its error may become an argument
    # (catch hands it to the recover task)
    ea0 = sm.func("Scheduler._evaluate_apply")
    local_fns = {q.split(".")[-1]: f for q, f in sm.funcs.items() if q.startswith("Scheduler._evaluate_apply.") and q.count(".") == 2}

    def reaches_copy(fname, seen=()):
        f = local_fns.get(fname)
        if f is None or fname in seen:
            return False
        if any(f is x for x in cbs):
            return True
        return any(isinstance(c.func, ast.Name) and reaches_copy(c.func.id, seen + (fname,)) for c in calls_in(f))

    thens = [c for c in calls_in(ea0, shallow=True) if last_attr(c) == "then" and isinstance(c.func, ast.Attribute) and "pending_promise" in src(c.func.value)]
    if not thens:
        raise AnalysisError("_evaluate_apply: `pending_promise.then(...)` of the dedup branch not found", "Scheduler._evaluate_apply")
    for c in thens:
        on_ok = len(c.args) >= 1 and isinstance(c.args[0], ast.Name) and reaches_copy(c.args[0].id)
        on_err = (len(c.args) >= 2 and isinstance(c.args[1], ast.Name) and reaches_copy(c.args[1].id)) or any(kw.arg == "rejector" and isinstance(kw.value, ast.Name) and reaches_copy(kw.value.id) for kw in c.keywords)
        r1.check(on_ok, f"{sm.rel}:Scheduler._evaluate_apply:dedup-copy-on-success", "the duplicate expression does not receive the original's bookkeeping when the original call succeeds", sm.rel, c.lineno)
        r1.check(
            on_err,
            f"{sm.rel}:Scheduler._evaluate_apply:dedup-copy-on-failure",
            f"`{src(c)}` copies call_hash/_upstreams to the duplicate expression only when the original call succeeds: when it fails, the duplicate's error (e.g. handed by catch to "
            "its recover task) is recorded without an upstream link to the failed call node",
            sm.rel,
            c.lineno,
        )
    ctx.extra["dispatch_table"] = table
    ctx.extra["exhaustive"] = True
    # the dispatch in _evaluate_apply covers the same kinds
    ea = sm.func("Scheduler._evaluate_apply")
    handled = {src(c.args[1]) for n in ast.walk(ea) if isinstance(n, ast.If) and sm.enclosing_func(n) is ea for c in [n.test] if isinstance(c, ast.Call) and call_name(c) == "isinstance" and src(c.args[0]) == "expr"}
    r1.check(set(kinds) <= handled, f"{sm.rel}:Scheduler._evaluate_apply:dispatch", f"_evaluate_apply handles {sorted(handled)} but ApplyExpression has concrete kinds {sorted(kinds)}", sm.rel, ea.lineno)

    r2 = ctx.rule("C21.2", "bookkeeping is produced on the normal path: call_hash published, _upstreams kept/rewired", floor=5)
    for q in ("Job.resolve", "Job.reject"):
        fn = sm.func(q)
        ok = False
        for n in ast.walk(fn):
            if isinstance(n, ast.If) and src(n.test) == "self.recording_provenance()":
                ok = any(isinstance(b, ast.Assign) and src(b.targets[0]) == "self.expr.call_hash" and src(b.value) == "self.call_hash" for b in n.body)
        r2.check(ok, f"{sm.rel}:{q}:publish-call_hash", "the job's call_hash is not published on its expression when provenance is recorded", sm.rel, fn.lineno)
    ai = em.func("ApplyExpression.__init__")
    ok = any(isinstance(n, ast.Assign) and src(n.targets[0]) == "self._upstreams" and src(n.value) == "[args, kwargs]" for n in ast.walk(ai))
    r2.check(ok, f"{em.rel}:ApplyExpression.__init__:_upstreams", "ApplyExpression no longer records [args, kwargs] as its upstreams", em.rel, ai.lineno)
    de = em.func("derive_expression")
    ok = any(isinstance(n, ast.Assign) and src(n.targets[0]).endswith("._upstreams") and src(n.value) == "[orig_expr]" for n in ast.walk(de))
    r2.check(ok, f"{em.rel}:derive_expression", "derive_expression does not set the derived expression's upstreams to [orig_expr]", em.rel, de.lineno)
    pc = sm.funcs.get("catch.promise_catch")
    if pc is None:
        raise AnalysisError("catch.promise_catch not found", "catch.promise_catch")
    dcalls = [src(c) for c in calls_in(pc) if call_name(c) == "derive_expression"]
    # the error derives from the expression that was evaluated: `expr`, or a local of catch() whose every definition is `expr` or the expression read from the cache
    catch_fn = sm.func("catch")
    def _is_evaluated_expr(name: str) -> bool:
        if name == "expr":
            return True
        defs = [a.value for a in ast.walk(catch_fn) if isinstance(a, (ast.Assign, ast.AnnAssign)) and a.value is not None and src(a.targets[0] if isinstance(a, ast.Assign) else a.target) == name]
        return bool(defs) and all(src(d) in ("expr", "cached_expr") for d in defs)
    err_src = [c for c in calls_in(pc) if call_name(c) == "derive_expression" and len(c.args) == 2 and src(c.args[1]) == "error"]
    ok = bool(err_src) and all(isinstance(c.args[0], ast.Name) and _is_evaluated_expr(c.args[0].id) for c in err_src) and "derive_expression(recover_expr, sexpr)" in dcalls
    r2.check(ok, f"{sm.rel}:catch.promise_catch:dataflow", f"catch does not rewire expr -> error -> recover(error) -> catch expression (found {dcalls})", sm.rel, pc.lineno)

    r4 = ctx.rule("C21.4", "deserialised expressions get the same upstream links as constructed ones", floor=3)
    base = em.cls("Expression")
    import re as _re

    def last_upstreams_assign(fn):
        """(value expr, position index, super-call position index) of the assignment to self._upstreams in fn."""
        val = pos = sup = None
        for i, n in enumerate(ast.walk(fn)):
            if isinstance(n, ast.Assign) and src(n.targets[0]) == "self._upstreams":
                val, pos = n.value, n.lineno
            if isinstance(n, ast.Call) and src(n.func).startswith("super().") and src(n.func).endswith(fn.name):
                sup = n.lineno
        return val, pos, sup

    def effective(m, c, meth):
        """The expression finally stored in self._upstreams after running c.<meth> (following super() chains)."""
        for cm, cc in repo.mro(m, c):
            fn = next((st for st in cc.body if isinstance(st, FuncNode) and st.name == meth), None)
            if fn is None:
                continue
            val, pos, sup = last_upstreams_assign(fn)
            if val is not None and (sup is None or pos > sup):
                return val, fn, cc
            if val is not None and sup is not None and pos < sup:
                # overwritten by the base class unless the base does not assign
                up = effective_from(repo.mro(cm, cc)[1:], meth)
                return up if up[0] is not None else (val, fn, cc)
            if sup is None:
                return None, fn, cc  # does not chain: base never runs
        return None, None, None

    def effective_from(mro_tail, meth):
        for cm, cc in mro_tail:
            fn = next((st for st in cc.body if isinstance(st, FuncNode) and st.name == meth), None)
            if fn is None:
                continue
            val, pos, sup = last_upstreams_assign(fn)
            if val is not None:
                return val, fn, cc
            if sup is None:
                return None, fn, cc
        return None, None, None

    nchk = 0
    for m, c in [(em, base)] + list(repo.subclasses(base, strict=True)):
        hres = repo.resolve_method(m, c, "_calc_hash")
        if hres is None or any(isinstance(n, ast.Raise) for n in hres[2].body):
            continue  # abstract expression class
        iv, ifn, icls = effective(m, c, "__init__")
        sv, sfn, scls = effective(m, c, "__setstate__")
        if ifn is None or sfn is None or iv is None:
            continue
        nchk += 1
        params = {a.arg for a in ifn.args.args[1:]}
        want = _re.sub(r"\b(" + "|".join(sorted(params)) + r")\b", lambda mo: "self." + mo.group(1), src(iv)) if params else src(iv)
        got = src(sv) if sv is not None else None
        r4.check(
            got == want,
            f"{m.rel}:{c.name}.__setstate__[{scls.name}]:_upstreams",
            f"a constructed {c.name} has _upstreams = {src(iv)} ({icls.name}.__init__) but a deserialised one ends with _upstreams = {got} "
            f"({scls.name}.__setstate__): expressions replayed from the cache lose (or mislink) the dataflow edges _find_arg_upstreams follows",
            m.rel,
            sfn.lineno,
        )
    if nchk < 3:
        raise AnalysisError(f"only {nchk} expression classes with __init__/__setstate__ upstream bookkeeping found", "Expression")

    r3 = ctx.rule("C21.3", "_record_args: evaluated values, positions/keys, defaults as keywords, upstreams from expression arguments", floor=5)
    ra = db.func("RedunBackendDb._record_args")
    t = src(ra)
    da = [n for n in ast.walk(ra) if isinstance(n, ast.Assign) and src(n.targets[0]) == "default_args"]
    ok = False
    if da and isinstance(da[0].value, ast.ListComp):
        lc = da[0].value
        elt = lc.elt
        ok = isinstance(elt, ast.Tuple) and len(elt.elts) == 4 and src(elt.elts[0]) == "None" and src(elt.elts[1]) == src(lc.generators[0].target) and src(lc.generators[0].iter) == "eval_kwargs" and any("not in expr_kwargs" in src(i) for i in lc.generators[0].ifs)
    r3.check(ok, f"{db.rel}:RedunBackendDb._record_args:defaults", "defaulted parameters (present in eval kwargs, absent from the expression) are not recorded as keyword arguments with no position", db.rel, ra.lineno)
    loop = next((n for n in ast.walk(ra) if isinstance(n, ast.For) and "all_args" in src(n.iter)), None)
    if loop is None:
        raise AnalysisError("_record_args: loop over all_args not found", "RedunBackendDb._record_args")
    names = [src(e) for e in loop.target.elts]
    if len(names) != 4:
        raise AnalysisError("_record_args: unexpected loop target", "RedunBackendDb._record_args")
    iv, kv, xv, ev = names
    body = " ".join(src(b) for b in loop.body)
    r3.check(f"self.record_value({ev})" in body, f"{db.rel}:RedunBackendDb._record_args:value", "the recorded argument value is not the evaluated argument", db.rel, loop.lineno)
    ok = False
    for c in calls_in(loop):
        if call_name(c) == "Argument":
            ok = src(kwarg(c, "arg_position")) == iv and src(kwarg(c, "arg_key")) == kv and src(kwarg(c, "call_hash")) == "call_hash" and src(kwarg(c, "value_hash")) == "value_hash"
    r3.check(ok, f"{db.rel}:RedunBackendDb._record_args:Argument", "Argument rows do not carry (call_hash, value_hash, position, key) of the iterated argument", db.rel, loop.lineno)
    ok = f"self._find_arg_upstreams({xv})" in body and any(call_name(c) == "ArgumentResult" and src(kwarg(c, "arg_hash")) == "arg_hash" for c in calls_in(loop))
    r3.check(ok, f"{db.rel}:RedunBackendDb._record_args:upstreams", "upstream call nodes are not derived from the expression argument and linked to the argument row", db.rel, loop.lineno)
    pos_ok = "enumerate(zip(expr_pos_args, eval_pos_args))" in t and "sorted(set(eval_kwargs) & set(expr_kwargs))" in t
    r3.check(pos_ok, f"{db.rel}:RedunBackendDb._record_args:pairing", "positional/keyword expression arguments are not paired with their evaluated values by position/key", db.rel, ra.lineno)
    # finalisers hand over expression args and evaluated args of the same job
    for q in ("Scheduler._resolve_job_main_thread", "Scheduler._reject_job_main_thread"):
        fn = sm.func(q)
        jv = fn.args.args[1].arg
        for c in calls_in(fn, shallow=True):
            if call_name(c) == "self.backend.record_call_node":
                ok = src(kwarg(c, "expr_args")) == f"({jv}.expr.args, {jv}.expr.kwargs)" and src(kwarg(c, "eval_args")) == f"{jv}.eval_args"
                r3.check(ok, f"{sm.rel}:{q}:record_call_node-args", "record_call_node is not given the job's expression arguments and evaluated arguments", sm.rel, c.lineno)
    _c21_5(ctx, repo)


def _c21_5(ctx, repo):
    """C21.5 / C21.6 appended rules (kept separate from run() for readability)."""
    from ..core import decorators

    r5 = ctx.rule("C21.5", "a scheduler task links the task calls it constructs itself to its own expression", floor=3)
    PURE = {"quote", "list", "tuple", "dict", "len", "sorted", "range", "enumerate", "zip", "cast", "map_nested_value", "iter_nested_value"}
    sched_tasks = {}
    for mod in repo.modules.values():
        for q, fn in mod.funcs.items():
            if any(d.split(".")[-1] == "scheduler_task" for d in decorators(fn)):
                sched_tasks[q.split(".")[-1]] = (mod, q, fn)
    if len(sched_tasks) < 8:
        raise AnalysisError(f"only {len(sched_tasks)} scheduler tasks found", "scheduler_task")
    for name, (mod, q, fn) in sorted(sched_tasks.items()):
        params = {a.arg for a in fn.args.args}
        built = {}
        for n in ast.walk(fn):
            if isinstance(n, ast.Assign) and isinstance(n.targets[0], ast.Name) and isinstance(n.value, ast.Call):
                built[n.targets[0].id] = n.value
        constructed = []
        for c in calls_in(fn):
            if last_attr(c) != "evaluate" or not c.args:
                continue
            for x in ast.walk(c.args[0]):
                call = None
                if isinstance(x, ast.Call):
                    call = x
                elif isinstance(x, ast.Name) and x.id in built and x.id not in params:
                    call = built[x.id]
                if call is None:
                    continue
                f = call.func
                # a task call: the callee is a task-valued parameter/local (`a_task(value)`, `recover(...)`) or `<task>.options(...)(...)`
                callee = f.id if isinstance(f, ast.Name) else None
                is_task_call = (callee is not None and callee not in PURE and (callee in params or callee in {a.arg for g in ast.walk(fn) if isinstance(g, FuncNode) for a in g.args.args})) or (
                    isinstance(f, ast.Call) and isinstance(f.func, ast.Attribute) and f.func.attr == "options"
                )
                delegates = callee in sched_tasks  # another scheduler task: that one is responsible for its own links
                if is_task_call and not delegates:
                    constructed.append(src(call)[:60])
        if not constructed:
            r5.good(f"{mod.rel}:{q}", "evaluates only its own argument expressions (reachable through sexpr._upstreams)")
            continue
        rewires = any(
            (isinstance(n, ast.Call) and call_name(n) == "derive_expression" and len(n.args) == 2 and src(n.args[1]) in params)
            or (isinstance(n, ast.Assign) and isinstance(n.targets[0], ast.Attribute) and n.targets[0].attr == "_upstreams" and src(n.targets[0].value) in params)
            for n in ast.walk(fn)
        )
        r5.check(
            rewires,
            f"{mod.rel}:{q}:constructed-calls-unlinked",
            f"{q} evaluates task calls it builds itself ({'; '.join(sorted(set(constructed))[:2])}) and returns their result as its own, but never makes them upstreams of its scheduler "
            "expression (derive_expression(<new expr>, sexpr) / sexpr._upstreams): an argument computed through this scheduler task is recorded without a link to the call that produced it",
            mod.rel,
            fn.lineno,
        )

    # an expression a scheduler task takes out of the cache is a deserialized copy: it is not one of the objects reachable from sexpr, so evaluating it
    # needs its own derive_expression(<cached expr>, sexpr) before the evaluate, or whatever consumes the scheduler task's result has no upstream
    r8 = ctx.rule("C21.8", "an expression a scheduler task reads from the cache is linked to its scheduler expression before it is evaluated", floor=1)
    ncached = 0
    for name, (mod, q, fn) in sorted(sched_tasks.items()):
        params = {a.arg for a in fn.args.args}
        from_cache = set()
        for n in ast.walk(fn):
            if isinstance(n, ast.Assign) and isinstance(n.value, ast.Call) and last_attr(n.value) in ("check_cache", "get_cache", "_get_cache", "get_eval_cache"):
                tg = n.targets[0]
                first = tg.elts[0] if isinstance(tg, ast.Tuple) and tg.elts else tg
                if isinstance(first, ast.Name):
                    from_cache.add(first.id)
        if not from_cache:
            continue
        cfg8 = CFG(fn)
        for c in calls_in(fn, shallow=True):
            if last_attr(c) == "evaluate" and c.args and isinstance(c.args[0], ast.Name) and c.args[0].id in from_cache:
                ncached += 1
                x = c.args[0].id
                node = cfg8.node_of(c)
                links = [cfg8.node_of(d) for d in calls_in(fn, shallow=True) if call_name(d) == "derive_expression" and len(d.args) == 2 and src(d.args[0]) == x and src(d.args[1]) in params]
                r8.check(
                    any(cfg8.dominates(l, node) for l in links),
                    f"{mod.rel}:{q}:cached-expression-unlinked:{x}",
                    f"{q} evaluates `{x}`, an expression deserialized from the cache, without derive_expression({x}, <scheduler expression>): on a cache hit the value handed on by {name}() has no upstream "
                    "(the upstreams of the scheduler expression still point at the original argument expressions, which are never evaluated on this path), so the consumer's argument is recorded unlinked",
                    mod.rel,
                    c.lineno,
                )
    if ncached == 0:
        raise AnalysisError("no scheduler task evaluates an expression read from the cache (catch's cache-hit path was expected)", "catch")

    # upstream links are a property of *this* call's argument expressions, which do not enter the call hash; recording them only when the CallNode row is new
    # drops the links of every later equal call that got its arguments from other upstream calls
    r9 = ctx.rule("C21.9", "upstream links of a call are recorded even when an equal CallNode already exists", floor=1)
    dbm9 = repo.mod(DB)
    rcn = dbm9.func("RedunBackendDb.record_call_node")
    cfg9 = CFG(rcn)
    hashed = set()
    for c in calls_in(rcn):
        if call_name(c) == "hash_call_node":
            hashed = {src(a) for a in c.args}
    ra_calls = [c for c in calls_in(rcn) if last_attr(c) == "_record_args"]
    if not ra_calls:
        raise AnalysisError("record_call_node no longer calls _record_args", "RedunBackendDb.record_call_node")
    for c in ra_calls:
        unhashed = [src(a) for a in c.args if src(a) not in hashed and src(a) != "call_hash" and "expr" in src(a)]
        guard = [f for f, t in facts_at(cfg9, cfg9.node_of(c)) if "query(CallNode)" in f and not t]
        other = any(last_attr(x) in ("record_call_node_upstreams", "_record_upstreams") for x in calls_in(rcn))
        r9.check(
            not (unhashed and guard) or other,
            f"{dbm9.rel}:RedunBackendDb.record_call_node:upstreams-only-for-new-node",
            f"`{src(c)}` records the upstream links found in {unhashed} only when `{guard[0][:70] if guard else ''}` finds no row; {unhashed} is not part of the call hash, so for "
            "main() = [task2(a()), task2(b())] with a() == b() the single task2 call node is linked to `a` only (the second call is de-duplicated or cached) and the dataflow b -> task2 is never recorded",
            dbm9.rel,
            c.lineno,
        )

    # the upstream search of one argument must not depend on the other arguments of the call: no mutable state created outside the
    # per-argument loop may be passed into (or captured by) _find_arg_upstreams
    r7 = ctx.rule("C21.7", "upstreams are searched independently for every argument", floor=1)
    dbm = repo.mod(DB)
    ra7 = dbm.func("RedunBackendDb._record_args")
    fau7 = dbm.func("RedunBackendDb._find_arg_upstreams")
    loops7 = [n for n in ast.walk(ra7) if isinstance(n, ast.For) and any(isinstance(c, ast.Call) and last_attr(c) == "_find_arg_upstreams" for c in ast.walk(n))]
    if not loops7:
        raise AnalysisError("_record_args: loop calling _find_arg_upstreams not found", "RedunBackendDb._record_args")
    for lp in loops7:
        inner = {t.id for n in ast.walk(lp) for t in ([x for x in ast.walk(n.target) if isinstance(x, ast.Name)] if isinstance(n, (ast.For, ast.comprehension)) else [])}
        inner |= {t.id for n in ast.walk(lp) if isinstance(n, ast.Assign) for t in n.targets if isinstance(t, ast.Name)}
        for c in ast.walk(lp):
            if isinstance(c, ast.Call) and last_attr(c) == "_find_arg_upstreams":
                extra = [a for a in list(c.args[1:]) + [k.value for k in c.keywords]]
                outside = [src(a) for a in extra if any(isinstance(x, ast.Name) and x.id not in inner for x in ast.walk(a)) and not isinstance(a, ast.Constant)]
                r7.check(
                    not outside,
                    f"{dbm.rel}:RedunBackendDb._record_args:shared-search-state",
                    f"`{src(c)}` passes {outside}, created outside the per-argument loop, into the upstream search: what is found for one argument then depends on the arguments recorded before it "
                    "(an expression shared by two arguments is walked once, so the second argument is recorded without its upstream link)",
                    dbm.rel,
                    c.lineno,
                )
    # and the search itself keeps no state between calls (no attribute of self is written)
    writes7 = [src(n) for n in ast.walk(fau7) if isinstance(n, (ast.Assign, ast.AugAssign)) and any(isinstance(t, ast.Attribute) and src(t.value) == "self" for t in (n.targets if isinstance(n, ast.Assign) else [n.target]))]
    r7.check(not writes7, f"{dbm.rel}:RedunBackendDb._find_arg_upstreams:stateless", f"_find_arg_upstreams writes backend state {writes7}: the search of one argument can depend on earlier searches", dbm.rel, fau7.lineno)

    r6 = ctx.rule("C21.6", "a defaulted parameter keeps the default's expression for upstream lookup", floor=1)
    db = repo.mod(DB)
    ra = db.func("RedunBackendDb._record_args")
    da = next((n for n in ast.walk(ra) if isinstance(n, ast.Assign) and src(n.targets[0]) == "default_args"), None)
    if da is None:
        raise AnalysisError("_record_args: default_args not found", "RedunBackendDb._record_args")
    tup = next((x for x in ast.walk(da.value) if isinstance(x, ast.Tuple) and len(x.elts) == 4), None)
    if tup is None:
        raise AnalysisError("_record_args: default_args tuples not found", "RedunBackendDb._record_args")
    r6.check(
        src(tup.elts[2]) != src(tup.elts[3]),
        f"{db.rel}:RedunBackendDb._record_args:default-expression",
        f"for a defaulted parameter _record_args uses the evaluated value `{src(tup.elts[3])}` also as the argument's expression, so _find_arg_upstreams sees a plain value: a default "
        "that is itself a task call (`def f(x, y=producer())`) is recorded as keyword argument y without an upstream link to producer()",
        db.rel,
        da.lineno,
    )
