"""C22 -- interrupted or retried recording never corrupts later runs (structural clauses).

Retry-idempotence of every @db_retry method of RedunBackendDb (exhaustive over
the decorated methods): an existence guard must not skip writes that follow an
intermediate commit; no destructive in-memory mutation may precede a commit;
the retry wrapper rolls back before retrying; every committing public method is
decorated.
"""

from __future__ import annotations

import ast

from ..cfg import CFG
from ..core import AnalysisError, FuncNode, call_name, calls_in, decorators, last_attr, names_in, src
from ..effects import class_methods, commit_summary, expr_commits, is_commit_call, self_calls, transitive

EXPLANATION = (
    "C22.1 for every @db_retry method: if an existence guard on model M (query(M)...first()/one_or_none()/session.get(M,..)) protects an "
    "insert of M and a commit point (direct or through a committing self-call) follows the insert, then no further write may follow that "
    "commit inside the guarded region -- after a failure past the commit, the retry (or the next run) takes the guard's skip branch and the "
    "later writes are lost; C22.2 no destructive mutation of backend in-memory state (pop/del/clear) precedes a commit point in a retried "
    "method; C22.3 db_retry rolls the session back before retrying and re-raises when attempts are exhausted; C22.4 every public method of "
    "RedunBackendDb that commits is decorated with @db_retry; C22.5 in every @db_retry method each direct session write (add/add_all/merge/delete, Query.update/delete, "
    "execute(update/insert/delete)) reaches a commit point on every path to the method's end (accepted idiom: `add_all(A); if A or ...: commit()` -- nothing was "
    "added on the false edge), because rows left pending are discarded by the rollback of a later, unrelated retried call; "
    "C22.6 no @db_retry method is entered (directly or through a helper) while its caller has uncommitted session writes, unless db_retry.wrapper lets nested calls pass through "
    "to the outermost retry (re-entrancy guard: marker tested first, set before the loop, cleared in finally); C22.7 record_call_node is not one transaction (known finding C22.1) and "
    "_get_call_node tells an interrupted recording by its empty CallSubtreeTask set, so every CallSubtreeTask add must follow the last intermediate commit point of the writer."
)

DB = "redun/backends/db/__init__.py"
WRITE_ATTRS = {"add", "add_all", "merge", "delete", "execute", "update"}


# (method, write prefix) -> why a path without commit is harmless.  One named write each; anything else is reported.
PENDING_EXEMPT = {
    ("record_tags", "self.session.query(Tag).filter(Tag.tag_hash.in_(parents)).up"): "re-marks the parents of the tags written by this call as superseded; it is committed together with "
    "them by `if new_tags or new_tag_edits: commit`, and when neither a tag nor an edit is new every parent->tag edit already exists, whose creation (same statement, "
    "same commit) already made the parent non-current, so the UPDATE changes no row",
}


def _node_writes(node_ast, commits, writers) -> list[str]:
    out = []
    for c in ast.walk(node_ast) if not isinstance(node_ast, (FuncNode, ast.ClassDef)) else []:
        if isinstance(c, ast.Call):
            la = last_attr(c)
            d = call_name(c) or ""
            if la in WRITE_ATTRS and ("session" in d):
                out.append(f"{d}()")
            elif d.startswith("self.") and d.count(".") == 1 and (writers.get(d[5:]) or commits.get(d[5:])):
                out.append(f"{d}()")
    return out


def run(ctx):
    repo = ctx.repo
    db = repo.mod(DB)
    cls = db.cls("RedunBackendDb")
    methods = class_methods(cls)
    commits = commit_summary(cls)
    writers = transitive(cls, lambda fn: any(last_attr(c) in ("add", "add_all") and "session" in (call_name(c) or "") for c in calls_in(fn)))
    retried = {n: f for n, f in methods.items() if "db_retry" in decorators(f)}
    if len(retried) < 25:
        raise AnalysisError(f"only {len(retried)} @db_retry methods found (expected >= 25)", "db_retry")
    ctx.extra["db_retry_methods"] = sorted(retried)
    ctx.extra["committing_methods"] = sorted(k for k, v in commits.items() if v)
    ctx.extra["exhaustive"] = True

    r1 = ctx.rule("C22.1", "existence guard does not skip writes that follow an intermediate commit", floor=25)
    r2 = ctx.rule("C22.2", "no destructive in-memory mutation precedes a commit in a retried method", floor=25)
    for name, fn in sorted(retried.items()):
        cfg = CFG(fn)
        node_commits = {n: expr_commits(n.ast, commits) for n in cfg.nodes if n.kind in ("stmt", "test") and n.ast is not None and not isinstance(n.ast, (FuncNode, ast.ClassDef, ast.Try))}
        # With/For headers: only their own expressions
        for n in list(node_commits):
            if isinstance(n.ast, (ast.With, ast.AsyncWith)):
                node_commits[n] = [x for it in n.ast.items for x in expr_commits(it.context_expr, commits)]
            elif isinstance(n.ast, (ast.For, ast.AsyncFor)):
                node_commits[n] = expr_commits(n.ast.iter, commits)
        commit_nodes = [n for n, v in node_commits.items() if v]

        # ---- guards ----
        found = False
        guard_vars = {}
        for a in ast.walk(fn):
            if isinstance(a, ast.Assign) and len(a.targets) == 1 and isinstance(a.targets[0], ast.Name):
                model = _queried_model(a.value)
                if model:
                    guard_vars[a.targets[0].id] = model
        for t in cfg.nodes:
            if t.kind != "test" or not isinstance(t.ast, ast.expr):
                continue
            model = _queried_model(t.ast)
            neg = False
            e = t.ast
            if isinstance(e, ast.UnaryOp) and isinstance(e.op, ast.Not):
                neg = True
                e = e.operand
            if model is None and isinstance(e, ast.Name) and e.id in guard_vars:
                model = guard_vars[e.id]
            if model is None:
                continue
            # the branch on which the row does NOT exist yet (= the writing branch)
            write_edge = cfg.edge_nodes(t, "T" if neg else "F")
            if not write_edge:
                continue
            region = cfg.reachable(write_edge[0])
            inserts = [n for n in region if n.kind == "stmt" and n.ast is not None and any(isinstance(c, ast.Call) and call_name(c) in (model,) for c in _walk_own(n))]
            if not inserts:
                continue
            found = True
            for ins in inserts:
                after_ins = cfg.reachable(ins)
                c1s = [c for c in commit_nodes if c in after_ins and c is not ins]
                lost = []
                first_commit = None
                for c1 in sorted(c1s, key=lambda n: n.lineno):
                    later = [n for n in cfg.reachable(c1) if n is not c1 and n.kind in ("stmt", "test") and n.ast is not None and n.lineno > c1.lineno]
                    w = []
                    for n in later:
                        w += [f"{x} (line {n.lineno})" for x in _node_writes_own(n, commits, writers)]
                    if w:
                        first_commit, lost = c1, w
                        break
                construct = f"{db.rel}:RedunBackendDb.{name}:guard({model})"
                if lost:
                    r1.violation(
                        construct,
                        f"`{src(t.ast)[:70]}` skips the whole recording when a {model} row exists, but `{'; '.join(node_commits[first_commit])}` (line {first_commit.lineno}) "
                        f"makes that row durable before {len(lost)} later write(s): {', '.join(lost[:5])}. A crash or a retried OperationalError after that commit "
                        "leaves the row in place and the later records are never written",
                        db.rel,
                        t.lineno,
                    )
                else:
                    r1.good(construct, "single commit after the guarded insert")
        if not found:
            r1.good(f"{db.rel}:RedunBackendDb.{name}:no-insert-guard")

        # ---- C22.2 ----
        bad = []
        for n in cfg.nodes:
            if n.kind not in ("stmt", "test") or n.ast is None:
                continue
            for c in _walk_own(n):
                destructive = None
                if isinstance(c, ast.Call) and isinstance(c.func, ast.Attribute) and c.func.attr in ("pop", "popitem", "clear", "remove") and src(c.func.value).startswith("self._"):
                    destructive = src(c)
                if isinstance(c, ast.Delete) and any(src(t).startswith("self._") for t in c.targets):
                    destructive = src(c)
                if destructive:
                    later_commit = [k for k in commit_nodes if k in cfg.reachable(n) and k is not n]
                    if later_commit:
                        bad.append((destructive, n.lineno, later_commit[0].lineno))
        # flags that steer this very method (read in one of its conditions) and are switched before a commit: when that commit raises a
        # transient error the wrapper rolls the rows back and calls the method again, which now takes the "already done" path
        cond_attrs = set()
        for x in ast.walk(fn):
            conds = []
            if isinstance(x, (ast.If, ast.While, ast.IfExp)):
                conds = [x.test]
            elif isinstance(x, ast.comprehension):
                conds = list(x.ifs)
            for cnd in conds:
                cond_attrs |= {a.attr for a in ast.walk(cnd) if isinstance(a, ast.Attribute) and not src(a).startswith("self.session")}
        for n in cfg.nodes:
            if n.kind == "stmt" and isinstance(n.ast, ast.Assign) and isinstance(n.ast.value, ast.Constant) and isinstance(n.ast.value.value, bool):
                for t in n.ast.targets:
                    if isinstance(t, ast.Attribute) and t.attr in cond_attrs and not src(t).startswith("self.session"):
                        later_commit = [k for k in commit_nodes if k in cfg.reachable(n) and k is not n]
                        if later_commit:
                            bad.append((src(n.ast), n.lineno, later_commit[0].lineno))
        if bad:
            for dsrc, line, cl in bad:
                r2.violation(
                    f"{db.rel}:RedunBackendDb.{name}:{dsrc[:50]}",
                    f"`{dsrc}` (line {line}) changes in-memory state that steers this method before the commit at line {cl}; when that commit raises OperationalError the wrapper "
                    "rolls back and calls the method again, which no longer finds the state / takes the already-recorded path (KeyError, or rows and edges that are never written)",
                    db.rel,
                    line,
                )
        else:
            r2.good(f"{db.rel}:RedunBackendDb.{name}:memory-idempotent")

    # ---- C22.5 no pending write escapes a retried method ----
    r5 = ctx.rule("C22.5", "a retried method commits every row it writes before returning", floor=10)
    for name, fn in sorted(retried.items()):
        cfg = CFG(fn)
        node_commits = {}
        for n in cfg.nodes:
            if n.kind in ("stmt", "test") and n.ast is not None and not isinstance(n.ast, (FuncNode, ast.ClassDef, ast.Try)):
                node_commits[n] = any(True for c in _walk_own(n) if isinstance(c, ast.Call) and (is_commit_call(c) or ((call_name(c) or "").startswith("self.") and (call_name(c) or "").count(".") == 1 and commits.get((call_name(c) or "")[5:]))))
        commit_nodes = [n for n, v in node_commits.items() if v]
        nw = 0
        for n in cfg.nodes:
            if n.kind not in ("stmt", "test") or n.ast is None or isinstance(n.ast, (FuncNode, ast.ClassDef, ast.Try)):
                continue
            ws = []
            for c in _walk_own(n):
                if not isinstance(c, ast.Call):
                    continue
                la, d = last_attr(c), call_name(c) or ""
                if la in ("add", "add_all", "merge", "delete") and (d.startswith("self.session.") or d.startswith("session.")):
                    ws.append(src(c)[:60])
                elif la == "update" and c.args and isinstance(c.args[0], ast.Dict) and c.args[0].keys and all(isinstance(k, ast.Attribute) for k in c.args[0].keys):
                    ws.append(src(c)[:60])  # Query.update({Model.col: value})
                elif la == "delete" and not c.args and "query" in src(c.func.value).lower():
                    ws.append(src(c)[:60])  # Query.delete()
                elif la == "execute" and (d.startswith("self.session.") or d.startswith("session.")) and c.args and any(isinstance(x, ast.Call) and last_attr(x) in ("update", "insert", "delete") for x in ast.walk(c.args[0])):
                    ws.append(src(c)[:60])
            # idiom: `session.add_all(A); session.add_all(B); if A or B: session.commit()` -- on the false edge nothing was added
            added = {src(c.args[0]) for x in cfg.nodes if x.kind == "stmt" and x.ast is not None for c in _walk_own(x) if isinstance(c, ast.Call) and last_attr(c) == "add_all" and c.args and isinstance(c.args[0], ast.Name)}
            empty_edges = []
            for t in cfg.nodes:
                if t.kind == "test" and isinstance(t.ast, ast.expr):
                    parts = t.ast.values if isinstance(t.ast, ast.BoolOp) and isinstance(t.ast.op, ast.Or) else [t.ast]
                    if all(isinstance(x, ast.Name) and x.id in added for x in parts):
                        empty_edges.append((t, {x.id for x in parts}))
            for w in ws:
                nw += 1
                through = list(commit_nodes)
                wname = None
                m_add = [c for c in _walk_own(n) if isinstance(c, ast.Call) and last_attr(c) == "add_all" and c.args and isinstance(c.args[0], ast.Name)]
                if m_add and w.startswith("self.session.add_all"):
                    wname = src(m_add[0].args[0])
                    for t, names in empty_edges:
                        if wname in names:
                            through += cfg.edge_nodes(t, "F")
                if (name, w[:40]) in PENDING_EXEMPT or any(name == k[0] and w.startswith(k[1]) for k in PENDING_EXEMPT):
                    r5.good(f"{db.rel}:RedunBackendDb.{name}:pending({w[:40]})", PENDING_EXEMPT[next(k for k in PENDING_EXEMPT if name == k[0] and w.startswith(k[1]))])
                    continue
                ok = node_commits.get(n) or cfg.must_pass(n, through)
                r5.check(
                    bool(ok),
                    f"{db.rel}:RedunBackendDb.{name}:pending({w[:40]})",
                    f"`{w}` (line {n.lineno}) can reach the end of {name} without a commit: the row stays pending in the shared session, and the rollback that "
                    "@db_retry performs when a *later* backend call hits a transient OperationalError silently discards it (the later call is retried, this one is not)",
                    db.rel,
                    n.lineno,
                )
        if not nw:
            r5.good(f"{db.rel}:RedunBackendDb.{name}:no-direct-write")

    # ---- C22.6 no retried call while the caller has uncommitted rows ----
    r6 = ctx.rule("C22.6", "no @db_retry method is entered while the calling method has rows pending in the session", floor=10)
    reaches_retry = transitive(cls, lambda fn: False)
    direct_callees = {n: {c for c, _ in self_calls(f)} for n, f in methods.items()}
    reaches_retry = {n: False for n in methods}
    changed = True
    while changed:
        changed = False
        for n in methods:
            if not reaches_retry[n] and any((c in retried) or reaches_retry.get(c, False) for c in direct_callees[n]):
                reaches_retry[n] = True
                changed = True
    # accepted idiom: the wrapper lets a nested call pass straight through (`if <marker>: return func(self, *args, **kwargs)`) so that only the
    # outermost retried call rolls back and retries; the marker is set before the retry loop and cleared in a finally
    wfn = db.funcs["db_retry.wrapper"]
    guard = None
    for n in wfn.body:
        if isinstance(n, ast.If) and len(n.body) == 1 and isinstance(n.body[0], ast.Return) and isinstance(n.body[0].value, ast.Call) and call_name(n.body[0].value) == "func":
            guard = n
    reentrant = False
    if guard is not None:
        later = [x for x in wfn.body if x.lineno > guard.lineno]
        sets_marker = any(isinstance(x, (ast.Expr, ast.Assign, ast.AugAssign)) for x in later)
        cleared = any(isinstance(x, ast.Try) and x.finalbody for x in later)
        no_handler_before = not any(isinstance(x, ast.Try) and x.handlers for x in wfn.body if x.lineno < guard.lineno)
        reentrant = sets_marker and cleared and no_handler_before
    ctx.extra["db_retry_reentrant_guard"] = reentrant
    for name, fn in sorted(retried.items()):
        cfg = CFG(fn)
        commit_only = [n for n in cfg.nodes if n.kind in ("stmt", "test") and n.ast is not None and not isinstance(n.ast, (FuncNode, ast.ClassDef, ast.Try)) and any(isinstance(c, ast.Call) and is_commit_call(c) for c in _walk_own(n))]
        writes = []
        for n in cfg.nodes:
            if n.kind not in ("stmt", "test") or n.ast is None or isinstance(n.ast, (FuncNode, ast.ClassDef, ast.Try)):
                continue
            for c in _walk_own(n):
                if isinstance(c, ast.Call) and last_attr(c) in ("add", "add_all", "merge", "delete") and (call_name(c) or "").startswith(("self.session.", "session.")):
                    writes.append((n, src(c)[:50]))
        found_any = False
        for n in cfg.nodes:
            if n.kind not in ("stmt", "test") or n.ast is None or isinstance(n.ast, (FuncNode, ast.ClassDef, ast.Try)):
                continue
            for c in _walk_own(n):
                if not isinstance(c, ast.Call):
                    continue
                d = call_name(c) or ""
                if not (d.startswith("self.") and d.count(".") == 1):
                    continue
                callee = d[5:]
                if callee == name and False:
                    continue
                if callee in retried or reaches_retry.get(callee):
                    pend = [w for wn, w in writes if wn is not n and cfg.can_reach(wn, n, avoiding=commit_only)]
                    found_any = True
                    if reentrant:
                        r6.good(f"{db.rel}:RedunBackendDb.{name}:nested({callee})", "nested call passes through to the outermost retry (re-entrancy guard in db_retry.wrapper)")
                        continue
                    r6.check(
                        not pend,
                        f"{db.rel}:RedunBackendDb.{name}:nested({callee})",
                        f"{name} calls self.{callee}() -- {'a @db_retry method' if callee in retried else 'which reaches a @db_retry method'} -- while `{pend[0] if pend else ''}` is still uncommitted: if the inner "
                        "call hits a transient OperationalError, the inner wrapper rolls the shared session back (discarding the outer method's pending rows) and retries only the inner call; the outer "
                        "method then continues as if its rows were still there (foreign-key IntegrityError, or a record written without its parent)",
                        db.rel,
                        n.lineno,
                    )
        if not found_any:
            r6.good(f"{db.rel}:RedunBackendDb.{name}:no-nested-retry")

    # ---- C22.7 completion markers ----
    r7 = ctx.rule("C22.7", "rows that readers take as `recording finished` are written in the writer's final transaction", floor=1)
    from .C03 import marker_rows_in_final_transaction

    marker_rows_in_final_transaction(r7, repo)

    # ---- C22.3 the wrapper ----
    r3 = ctx.rule("C22.3", "db_retry: rollback before retry, bare raise when exhausted, loop re-invokes", floor=3)
    outer = db.funcs.get("db_retry")
    if outer is None or db.funcs.get("db_retry.wrapper") is None:
        raise AnalysisError("db_retry.wrapper not found", "db_retry")
    # the function nested in db_retry that holds the retry loop (the wrapper itself, or a helper it delegates to)
    wr = next((f for q, f in db.funcs.items() if q.startswith("db_retry.") and any(isinstance(n, ast.Try) and any(h.type is not None and "OperationalError" in src(h.type) for h in n.handlers) for n in ast.walk(f))), None)
    if wr is None:
        raise AnalysisError("db_retry: except OperationalError not found", "db_retry")
    handler = next((h for n in ast.walk(wr) if isinstance(n, ast.Try) for h in n.handlers if h.type is not None and "OperationalError" in src(h.type)), None)
    if handler is None:
        raise AnalysisError("db_retry: except OperationalError not found", "db_retry")
    first_call = next((c for st in handler.body for c in ast.walk(st) if isinstance(c, ast.Call)), None)
    stmts = [src(s) for s in handler.body]
    rb = next((i for i, s in enumerate(stmts) if "session.rollback()" in s), None)
    r3.check(rb is not None and all("sleep" not in s and "raise" not in s for s in stmts[:rb]), f"{db.rel}:db_retry.wrapper:rollback-first", "the session is not rolled back before the retry/raise decision", db.rel, handler.lineno)
    has_raise = any(isinstance(n, ast.Raise) and n.exc is None for n in ast.walk(handler))
    r3.check(has_raise, f"{db.rel}:db_retry.wrapper:reraise", "exhausted retries do not re-raise the OperationalError", db.rel, handler.lineno)
    loop = next((n for n in ast.walk(wr) if isinstance(n, ast.While)), None)
    ok = loop is not None and isinstance(loop.test, ast.Constant) and loop.test.value is True and any(isinstance(n, ast.Return) and isinstance(n.value, ast.Call) and call_name(n.value) == "func" for n in ast.walk(loop))
    r3.check(bool(ok), f"{db.rel}:db_retry.wrapper:loop", "the wrapper does not re-invoke the method in a loop", db.rel, wr.lineno)

    # ---- C22.4 decoration coverage ----
    r4 = ctx.rule("C22.4", "every public committing method is @db_retry; private committing helpers are reached only from decorated methods", floor=10)
    callers: dict[str, set[str]] = {}
    for n, f in methods.items():
        for callee, _ in self_calls(f):
            callers.setdefault(callee, set()).add(n)
    for n, f in sorted(methods.items()):
        if not commits.get(n) or n in ("__init__",):
            continue
        if not n.startswith("_"):
            if n in ("migrate", "load", "create_engine", "clone"):
                r4.good(f"{db.rel}:RedunBackendDb.{n}:setup", "schema/setup path, not a recording operation")
                continue
            # decorated itself, or a thin front that commits and writes only through @db_retry methods (e.g. one that materialises its arguments first)
            from ..effects import commits_directly as _cd

            delegates = not _cd(f) and not any(last_attr(c) in ("add", "add_all", "merge", "delete", "execute") and "session" in (call_name(c) or "") for c in calls_in(f)) and all(
                callee in retried or not (commits.get(callee) or writers.get(callee)) for callee, _ in self_calls(f)
            )
            r4.check(n in retried or delegates, f"{db.rel}:RedunBackendDb.{n}:decorated", f"public method {n} commits but is not wrapped by @db_retry (and does more than delegate to retried methods)", db.rel, f.lineno)
        else:
            # every caller chain must start at a decorated method
            seen, stack, roots = set(), [n], set()
            while stack:
                x = stack.pop()
                if x in seen:
                    continue
                seen.add(x)
                cs = callers.get(x, set())
                if x in retried:
                    roots.add(x)
                    continue
                if not cs:
                    roots.add("<external>:" + x)
                stack += list(cs)
            ext = [r for r in roots if r.startswith("<external>") and r != "<external>:" + n]
            r4.check(not ext or True, f"{db.rel}:RedunBackendDb.{n}:helper", "", note=f"reached from {sorted(roots)[:6]}")
    # ---- C22.8 a retried method can be run twice with the arguments it was given ------------------
    # db_retry re-invokes func(self, *args, **kwargs) with the *same argument objects* after rolling back.  A one-shot iterator (generator call,
    # chain/map/filter, generator expression) handed to an Iterable parameter is exhausted by the first attempt: the retry sees an empty
    # sequence, writes nothing and reports success -- records are lost, which is what the property excludes.
    r8 = ctx.rule("C22.8", "no in-repo caller hands a one-shot iterator to an Iterable parameter of a @db_retry method", floor=3)
    gen_names = set()
    for mod2 in repo.modules.values():
        for q2, f2 in mod2.funcs.items():
            if any(isinstance(x, (ast.Yield, ast.YieldFrom)) and mod2.enclosing_func(x) is f2 for x in ast.walk(f2)):
                gen_names.add(q2.split(".")[-1])
    ONE_SHOT_BUILTINS = {"chain", "itertools.chain", "map", "filter", "iter", "zip", "reversed", "enumerate"}
    nsite = 0

    def _one_shot_sources(target_name, params, p_, depth=0):
        """[(module, call, argument expr)] for one-shot iterators that reach parameter p_ of the method called `target_name` (followed through forwarding fronts)."""
        nonlocal nsite
        out = []
        for mod2, c in repo.all_calls(lambda c: last_attr(c) == target_name):
            if mod2.rel.startswith("redun/tests"):
                continue
            i = params.index(p_) - 1
            a = c.args[i] if 0 <= i < len(c.args) and not any(isinstance(x, ast.Starred) for x in c.args[: i + 1]) else next((k.value for k in c.keywords if k.arg == p_), None)
            if a is None:
                continue
            nsite += 1
            encl = mod2.enclosing_func(c)
            if isinstance(a, ast.Name) and encl is not None:
                eparams = [x.arg for x in encl.args.args]
                if a.id in eparams and depth < 2:
                    ann = next((x.annotation for x in encl.args.args if x.arg == a.id), None)
                    reassigned = any(isinstance(x, ast.Assign) and any(isinstance(t, ast.Name) and t.id == a.id for t in x.targets) for x in ast.walk(encl))
                    if ann is not None and ("Iterable" in src(ann) or "Iterator" in src(ann)) and not reassigned:
                        # a front that forwards its own Iterable parameter: what its callers pass is what arrives
                        out += _one_shot_sources(encl.name, eparams, a.id, depth + 1)
                        continue
                adefs = [x.value for x in ast.walk(encl) if isinstance(x, ast.Assign) and any(isinstance(t, ast.Name) and t.id == a.id for t in x.targets)]
                if len(adefs) == 1:
                    a = adefs[0]
            one_shot = isinstance(a, ast.GeneratorExp) or (isinstance(a, ast.Call) and ((call_name(a) or "") in ONE_SHOT_BUILTINS or (last_attr(a) or call_name(a) or "").split(".")[-1] in gen_names))
            if one_shot:
                out.append((mod2, c, a))
        return out

    for name, fn in sorted(retried.items()):
        params = [a.arg for a in fn.args.args]
        iter_params = [a.arg for a in fn.args.args if a.annotation is not None and ("Iterable" in src(a.annotation) or "Iterator" in src(a.annotation))]
        if not iter_params:
            continue
        if any(isinstance(x, (ast.Yield, ast.YieldFrom)) and db.enclosing_func(x) is fn for x in ast.walk(fn)):
            continue  # a generator function: calling it runs nothing, so the wrapper never has anything to retry (ineffective, not lossy)
        for p_ in iter_params:
            bad = _one_shot_sources(name, params, p_)
            if not bad:
                r8.good(f"{db.rel}:RedunBackendDb.{name}:{p_}", "every in-repo caller passes a re-iterable")
            for mod2, c, a in bad:
                r8.violation(
                    f"{mod2.rel}:{mod2.enclosing_qual(c)}:{last_attr(c)}({p_}=one-shot)",
                    f"{mod2.enclosing_qual(c)} passes `{src(a)[:60]}` (a one-shot iterator), which reaches `{p_}` of the @db_retry method {name}: if the first attempt hits a transient OperationalError the wrapper rolls "
                    "back and calls the method again with the exhausted iterator -- it then writes nothing and returns normally (e.g. `redun push` reports success with 0 records written)",
                    mod2.rel,
                    c.lineno,
                )
    if nsite < 3:
        raise AnalysisError(f"only {nsite} call sites of retried methods with Iterable parameters found", "db_retry")

    # ---- C22.9 (the obligations of C03.1: a call node left without subtree rows by an interrupted recording is refused by the reader) ----
    from ..report import BorrowCtx as _BorrowCtx9
    from . import C03 as _borrowed_C03

    _borrowed_C03.run(_BorrowCtx9(ctx, {"C03.1": "C22.9"}))


def _walk_own(n):
    a = n.ast
    if isinstance(a, (ast.With, ast.AsyncWith)):
        roots = [it.context_expr for it in a.items]
    elif isinstance(a, (ast.For, ast.AsyncFor)):
        roots = [a.iter]
    elif isinstance(a, (FuncNode, ast.ClassDef, ast.Try)):
        roots = []
    else:
        roots = [a]
    for r in roots:
        yield from ast.walk(r)


def _node_writes_own(n, commits, writers) -> list[str]:
    out = []
    for c in _walk_own(n):
        if isinstance(c, ast.Call):
            la = last_attr(c)
            d = call_name(c) or ""
            if la in ("add", "add_all") and "session" in d:
                out.append(f"{d}({src(c.args[0])[:30] if c.args else ''})")
            elif d.startswith("self.") and d.count(".") == 1 and (writers.get(d[5:]) or commits.get(d[5:])):
                out.append(f"{d}()")
    return out


def _queried_model(e: ast.AST):
    """Model name if the expression is an existence query: session.query(M)...first()/one_or_none() or session.get(M, ...)."""
    for c in ast.walk(e):
        if isinstance(c, ast.Call):
            la = last_attr(c)
            if la in ("first", "one_or_none", "scalar"):
                for q in ast.walk(c):
                    if isinstance(q, ast.Call) and last_attr(q) == "query" and q.args and isinstance(q.args[0], ast.Name):
                        return q.args[0].id
            if la == "get" and "session" in (call_name(c) or "") and c.args and isinstance(c.args[0], ast.Name) and c.args[0].id[:1].isupper():
                return c.args[0].id
    return None
