"""C23 -- record transfer between repositories preserves the call graph (schema coverage).

Every column of every serialized model is produced by serialize and consumed by
deserialize (or is in the exception table with a reason), every table is
transferred, a companion of a transferred model, or safely absent, the ownership
walk follows every foreign key, and repeated transfer adds nothing.
"""

from __future__ import annotations

import ast

from ..core import AnalysisError, FuncNode, call_name, calls_in, const_str, kwarg, last_attr, names_in, src
from .C03 import reader_guard

EXPLANATION = (
    "C23.1 field coverage: for Execution, Job, CallNode(+CallEdge, Argument, ArgumentResult), Value(+Subvalue, File, Task) and Tag(+TagEdit) every ORM "
    "column is written by serialize (attribute read of the row) and passed to the model constructor in deserialize, or is listed with a reason; the two "
    "Job serializers emit the same keys; C23.2 table coverage: every declarative table is serialized, a companion, or an exception whose absence cannot "
    "make the destination's cache serve what the source would refuse (Evaluation: absence is a miss; Handle/HandleEdge: absence makes handles invalid; "
    "CallSubtreeTask: allowed only because _get_call_node rejects empty recorded sets -- re-checked here); C23.3 every foreign-key column of a "
    "serialized model is yielded by the matching child-edge walker; _model_pks and the serializer table list the same five models; "
    "C23.4 put_records filters on has_records before adding and Tag.is_current is recomputed after import; "
    "C23.5 every *_child_edges walker iterates filter_in(<session.query(...) with only row-preserving methods (query, outerjoin)>, owner column, ids) "
    "over all the ids it is given and yields unconditionally, except for NULL skips of the yielded id and seen-set de-duplication."
    " C23.5 also: a `continue`/`break`/`return` inside a walker's row loop may skip a later yield only as a NULL skip of that yield's own column or as a seen-set skip on a column of the same model (positional query-column map); a de-duplication on Argument.* must not skip the ArgumentResult.* yield of the same joined row."
)

DB = "redun/backends/db/__init__.py"
SER = "redun/backends/db/serializers.py"

# model -> (serializer class, companions {model: how its columns are carried})
MODELS = {
    "Execution": "ExecutionSerializer",
    "Job": "JobSerializer",
    "CallNode": "CallNodeSerializer",
    "Value": "ValueSerializer",
    "Tag": "TagSerializer",
}
COMPANIONS = {"CallNode": ["CallEdge", "Argument", "ArgumentResult"], "Value": ["Subvalue", "File", "Task"], "Tag": ["TagEdit"]}
COLUMN_EXCEPTIONS = {
    ("Execution", "updated_time"): "heartbeat of a live execution, nullable; meaningless in another repository",
    ("Tag", "is_current"): "derived: recomputed for all tags by _postprocess_new_records (a tag with a child edit is not current)",
}
TABLE_EXCEPTIONS = {
    "Evaluation": "single-reduction cache only; absence at the destination is a cache miss",
    "Handle": "absence makes is_valid_handle falsy, so results containing the handle are re-executed",
    "HandleEdge": "lineage of Handle rows, which are not transferred",
    "RedunVersion": "schema bookkeeping of the destination database",
    "RedunMigration": "alembic bookkeeping of the destination database",
}


def orm_columns(db):
    out = {}
    fks = {}
    for cname, c in db.classes.items():
        tn = None
        cols = []
        for st in c.body:
            if isinstance(st, ast.Assign) and isinstance(st.targets[0], ast.Name):
                if st.targets[0].id == "__tablename__":
                    tn = const_str(st.value)
                elif isinstance(st.value, ast.Call) and call_name(st.value) == "Column":
                    cols.append(st.targets[0].id)
                    for a in ast.walk(st.value):
                        if isinstance(a, ast.Call) and call_name(a) == "ForeignKey":
                            fks.setdefault(cname, []).append((st.targets[0].id, const_str(a.args[0])))
        if tn:
            out[cname] = cols
    return out, fks


def run(ctx):
    repo = ctx.repo
    db = repo.mod(DB)
    ser = repo.mod(SER)
    cols, fks = orm_columns(db)
    if len(cols) < 15:
        raise AnalysisError(f"only {len(cols)} ORM models found", DB)

    r1 = ctx.rule("C23.1", "every column of a transferred model is serialized and deserialized", floor=30)
    for model, sname in MODELS.items():
        scls = ser.cls(sname)
        meths = {st.name: st for st in scls.body if isinstance(st, FuncNode)}
        sz, dz = meths.get("serialize"), meths.get("deserialize")
        if sz is None or dz is None:
            raise AnalysisError(f"{sname}: serialize/deserialize not found", sname)
        rowvar = sz.args.args[1].arg
        read = {n.attr for n in ast.walk(sz) if isinstance(n, ast.Attribute) and isinstance(n.value, ast.Name) and n.value.id == rowvar}
        # nested reads such as value.file.path / arg.arg_hash
        read_all = {n.attr for n in ast.walk(sz) if isinstance(n, ast.Attribute)}
        ctor = {}
        for c in calls_in(dz):
            d = call_name(c) or ""
            if d.startswith("db."):
                ctor.setdefault(d[3:], set()).update(k.arg for k in c.keywords if k.arg)
        for col in cols[model]:
            if (model, col) in COLUMN_EXCEPTIONS:
                r1.good(f"{ser.rel}:{sname}:{model}.{col}", "exception: " + COLUMN_EXCEPTIONS[(model, col)])
                # an exception must not silently start being half-transferred
                continue
            ok = col in read and col in ctor.get(model, set())
            r1.check(ok, f"{ser.rel}:{sname}:{model}.{col}", f"column {model}.{col} is {'not read by serialize' if col not in read else 'not passed to the constructor in deserialize'}: it is lost (or defaulted) in the destination repository", ser.rel, sz.lineno)
        for comp in COMPANIONS.get(model, []):
            for col in cols[comp]:
                ok = col in ctor.get(comp, set()) and (col in read_all or col in ("parent_id", "child_id", "call_hash", "value_hash", "parent_value_hash", "arg_hash", "hash", "call_order"))
                r1.check(ok, f"{ser.rel}:{sname}:{comp}.{col}", f"companion column {comp}.{col} is not reconstructed by {sname}.deserialize", ser.rel, dz.lineno)
        # keys written == keys read
        wkeys = set()
        for n in ast.walk(sz):
            if isinstance(n, ast.Return) and isinstance(n.value, ast.Dict):
                wkeys = {const_str(k) for k in n.value.keys if k is not None and const_str(k)}
        sp = dz.args.args[1].arg
        rkeys = {const_str(n.slice) for n in ast.walk(dz) if isinstance(n, ast.Subscript) and src(n.value) == sp and const_str(n.slice)} | {const_str(c.args[0]) for c in calls_in(dz) if call_name(c) == f"{sp}.get" and c.args}
        derived = {"status", "children"} if model == "Job" else set()
        r1.check(wkeys - derived == rkeys, f"{ser.rel}:{sname}:keys", f"serialize writes keys {sorted(wkeys - rkeys - derived)} that deserialize ignores / deserialize reads {sorted(rkeys - wkeys)} that serialize does not write", ser.rel, sz.lineno)
    js = ser.cls("JobSerializer")
    jm = {st.name: st for st in js.body if isinstance(st, FuncNode)}
    keysets = []
    for nm in ("serialize", "serialize_query"):
        ks = None
        for n in ast.walk(jm[nm]):
            if isinstance(n, ast.Dict) and any(k is not None and const_str(k) == "_type" for k in n.keys):
                ks = [const_str(k) for k in n.keys]
        keysets.append(ks)
    r1.check(keysets[0] is not None and keysets[0] == keysets[1], f"{ser.rel}:JobSerializer:sibling-keys", f"serialize and serialize_query emit different keys: {keysets}", ser.rel, js.lineno)

    r2 = ctx.rule("C23.2", "every table is transferred, a companion, or safely absent", floor=12)
    covered = set(MODELS) | {c for cs in COMPANIONS.values() for c in cs}
    subset_ok, nonempty_ok, guard_text = reader_guard(db)
    for model in sorted(cols):
        if model in covered:
            r2.good(f"{db.rel}:{model}:transferred")
        elif model in TABLE_EXCEPTIONS:
            r2.good(f"{db.rel}:{model}:absent-ok", TABLE_EXCEPTIONS[model])
        elif model == "CallSubtreeTask":
            r2.check(
                nonempty_ok,
                f"{db.rel}:CallSubtreeTask:not-transferred",
                "CallSubtreeTask rows are not transferred and _get_call_node accepts call nodes with an empty recorded subtree set: an imported call node is "
                "replayed by a shallow check although a task beneath it differs at the destination",
                db.rel,
                0,
                note=f"reader guard: {guard_text}",
            )
        else:
            r2.violation(f"{db.rel}:{model}:untransferred", f"table of model {model} is neither transferred nor listed as safely absent", db.rel, 0)

    r3 = ctx.rule("C23.3", "ownership walk follows every foreign key; model tables agree", floor=10)
    walkers = {"Execution": "get_execution_child_edges", "Job": "get_job_child_edges", "CallNode": "get_call_node_child_edges", "Value": "get_value_child_edges", "Tag": "get_tag_child_edges"}
    for model, wn in walkers.items():
        wf = db.func(wn)
        t = src(wf)
        for col, target in fks.get(model, []):
            if (model, col) in (("Job", "parent_id"), ("Job", "execution_id")):
                # walked downward (children of a job) and through the execution's root job
                ok = ("Job.parent_id" in t) if col == "parent_id" else True
            else:
                tmodel = {"task": "Task", "value": "Value", "call_node": "CallNode", "job": "Job", "execution": "Execution", "tag": "Tag"}.get((target or "").split(".")[0])
                ok = False
                for lp in ast.walk(wf):
                    if not isinstance(lp, ast.For):
                        continue
                    q = next((c for c in ast.walk(lp.iter) if isinstance(c, ast.Call) and last_attr(c) == "query"), None)
                    if q is None:
                        continue
                    colsq = [src(a) for a in q.args]
                    tg = [src(e) for e in lp.target.elts] if isinstance(lp.target, ast.Tuple) else [src(lp.target)]
                    if f"{model}.{col}" in colsq and len(colsq) == len(tg):
                        var = tg[colsq.index(f"{model}.{col}")]
                        for y in ast.walk(lp):
                            if isinstance(y, ast.Yield) and isinstance(y.value, ast.Tuple) and len(y.value.elts) == 3 and src(y.value.elts[1]) == tmodel and src(y.value.elts[2]) == var:
                                ok = True
            r3.check(ok, f"{db.rel}:{wn}:{model}.{col}", f"foreign key {model}.{col} -> {target} is not followed by {wn}: the referenced record is not transferred with its owner", db.rel, wf.lineno)
        tables = {}
        for cname, c in db.classes.items():
            for st in c.body:
                if isinstance(st, ast.Assign) and isinstance(st.targets[0], ast.Name) and st.targets[0].id == "__tablename__":
                    tables[const_str(st.value)] = cname
        for comp in COMPANIONS.get(model, []):
            for col, target in fks.get(comp, []):
                tmodel = tables.get((target or "").split(".")[0])
                if tmodel in COMPANIONS.get(model, []):
                    r3.good(f"{db.rel}:{wn}:{comp}.{col}", "link between two companions of the same record")
                    continue
                ok = f"{comp}.{col}" in t or comp in ("File", "Task")
                r3.check(ok, f"{db.rel}:{wn}:{comp}.{col}", f"companion foreign key {comp}.{col} -> {target} is not followed by {wn}", db.rel, wf.lineno)
    pk = None
    for n in ast.walk(db.cls("RedunBackendDb")):
        if isinstance(n, ast.Assign) and src(n.targets[0]) == "_model_pks" and isinstance(n.value, ast.List):
            pk = [src(e.elts[0]) for e in n.value.elts]
    rs = ser.func("RecordSerializer.__init__")
    sk = []
    for n in ast.walk(rs):
        if isinstance(n, ast.Dict):
            sk = [const_str(k) for k in n.keys]
    r3.check(pk is not None and sorted(pk) == sorted(sk) == sorted(MODELS), f"{db.rel}:_model_pks", f"_model_pks {pk} / serializer table {sk} / transferred models {sorted(MODELS)} disagree", db.rel, 0)
    gc = db.func("RedunBackendDb.get_child_record_ids")
    m2 = None
    for n in ast.walk(gc):
        if isinstance(n, ast.Dict) and any("child_edges" in src(v) for v in n.values):
            m2 = {src(k): src(v) for k, v in zip(n.keys, n.values)}
    r3.check(m2 == walkers, f"{db.rel}:RedunBackendDb.get_child_record_ids:table", f"model -> walker table is {m2}", db.rel, gc.lineno)
    r3.check("get_tag_entity_child_edges(session, all_ids)" in src(gc), f"{db.rel}:RedunBackendDb.get_child_record_ids:tags", "tags of the walked entities are not included", db.rel, gc.lineno)

    r5 = ctx.rule("C23.5", "walker queries are exhaustive: no row filter besides the owner-id IN (...) chunking, no conditional yield besides NULL/duplicate skipping", floor=10)
    wfuncs = [(q, f) for q, f in db.funcs.items() if "." not in q and q.endswith("_child_edges")]
    if len(wfuncs) < 6:
        raise AnalysisError(f"only {len(wfuncs)} *_child_edges walkers found (expected >= 6)", "child_edges")
    ROW_PRESERVING = {"query", "outerjoin"}
    for wn, wf in wfuncs:
        ids_param = wf.args.args[1].arg if len(wf.args.args) > 1 else None
        local_q = {}
        for n in ast.walk(wf):
            if isinstance(n, ast.Assign) and len(n.targets) == 1 and isinstance(n.targets[0], ast.Name) and isinstance(n.value, ast.Call):
                local_q.setdefault(n.targets[0].id, []).append(n.value)
        loops = [n for n in ast.walk(wf) if isinstance(n, ast.For)]
        if not loops:
            continue  # nothing is walked here: missing edges are C23.3's obligation
        for lp in loops:
            it = lp.iter
            if not (isinstance(it, ast.Call) and call_name(it) == "filter_in" and len(it.args) == 3):
                raise AnalysisError(f"{wn}: loop at line {lp.lineno} does not iterate filter_in(query, column, ids) (unknown idiom)", wn)
            qexprs = [it.args[0]]
            if isinstance(it.args[0], ast.Name):
                qexprs = local_q.get(it.args[0].id, [])
                if len(qexprs) != 1:
                    raise AnalysisError(f"{wn}: query variable {src(it.args[0])} is not assigned exactly once", wn)
            chain = []
            e = qexprs[0]
            while isinstance(e, ast.Call) and isinstance(e.func, ast.Attribute):
                chain.append(e.func.attr)
                e = e.func.value
            bad = [m for m in chain if m not in ROW_PRESERVING]
            r5.check(
                not bad and "query" in chain,
                f"{db.rel}:{wn}:{src(it.args[1])}:rows",
                f"the query walked by {wn} over {src(it.args[1])} applies {bad or 'no session.query'}: rows of the owner that the restriction drops (e.g. superseded tags, whose only link to the execution is this edge) are not transferred",
                db.rel,
                lp.lineno,
            )
            r5.check(src(it.args[2]) == ids_param, f"{db.rel}:{wn}:{src(it.args[1])}:ids", f"{wn} walks `{src(it.args[2])}` instead of all ids it was given", db.rel, lp.lineno)
            loopvars = set(names_in(lp.target))
            # loop variable -> model of the query column it is bound to (positional)
            qcall = qexprs[0]
            while isinstance(qcall, ast.Call) and isinstance(qcall.func, ast.Attribute) and qcall.func.attr != "query":
                qcall = qcall.func.value
            tvars = [src(t) for t in lp.target.elts] if isinstance(lp.target, ast.Tuple) else [src(lp.target)]
            colmodel = {}
            if isinstance(qcall, ast.Call) and len(qcall.args) == len(tvars):
                colmodel = {v: src(a).split(".")[0] for v, a in zip(tvars, qcall.args)}
            yields = [y for y in ast.walk(lp) if isinstance(y, ast.Yield)]
            # early exits from the row loop: each one skips every later yield of that row
            for j in ast.walk(lp):
                if not isinstance(j, (ast.Continue, ast.Break, ast.Return)):
                    continue
                gif = db.parent.get(j)
                later = [y for y in yields if y.lineno > j.lineno]
                if not later:
                    continue
                if isinstance(j, (ast.Break, ast.Return)) or not isinstance(gif, ast.If) or db.parent.get(gif) is not lp or not any(j is z for z in gif.body):
                    r5.violation(f"{db.rel}:{wn}:{src(it.args[1])}:early-exit", f"{wn} leaves the row loop with `{type(j).__name__.lower()}` at line {j.lineno} before later yields: the remaining rows/columns are not transferred", db.rel, j.lineno)
                    continue
                t = gif.test
                for y in later:
                    yv = src(y.value.elts[2]) if isinstance(y.value, ast.Tuple) and len(y.value.elts) == 3 else None
                    null_skip = src(t) in (f"not {yv}", f"{yv} is None")
                    dedup = (
                        isinstance(t, ast.Compare)
                        and len(t.ops) == 1
                        and isinstance(t.ops[0], ast.In)
                        and isinstance(t.left, ast.Name)
                        and t.left.id in loopvars
                        and colmodel.get(t.left.id) is not None
                        and colmodel.get(t.left.id) == colmodel.get(yv)
                    )
                    r5.check(
                        null_skip or dedup,
                        f"{db.rel}:{wn}:{yv}:skipped-by-continue",
                        f"{wn}: `if {src(t)}: continue` also skips the later `yield ... {yv}`, whose column ({colmodel.get(yv, '?')}) is not determined by the tested column "
                        f"({colmodel.get(src(t.left) if isinstance(t, ast.Compare) else '', '?')}): when an outer join repeats the row for a further {yv}, those records are never walked",
                        db.rel,
                        j.lineno,
                    )
            for y in yields:
                yvar = src(y.value.elts[2]) if isinstance(y.value, ast.Tuple) and len(y.value.elts) == 3 else None
                p = db.parent.get(y)
                while p is not None and p is not lp:
                    if isinstance(p, (ast.If, ast.While, ast.Try, ast.With)) and not isinstance(p, ast.If):
                        raise AnalysisError(f"{wn}: yield under {type(p).__name__} (unknown idiom)", wn)
                    if isinstance(p, ast.If):
                        t = p.test
                        in_body = any(y is z for b in p.body for z in ast.walk(b))
                        null_skip = in_body and src(t) in (yvar, f"{yvar} is not None")
                        dedup = in_body and isinstance(t, ast.Compare) and len(t.ops) == 1 and isinstance(t.ops[0], ast.NotIn) and isinstance(t.left, ast.Name) and t.left.id in loopvars and isinstance(t.comparators[0], ast.Name) and (not colmodel or colmodel.get(t.left.id) == colmodel.get(yvar)) and any(
                            isinstance(c, ast.Call) and src(c.func) == f"{src(t.comparators[0])}.add" and c.args and src(c.args[0]) == src(t.left) for b in p.body for c in ast.walk(b)
                        )
                        r5.check(
                            null_skip or dedup,
                            f"{db.rel}:{wn}:{yvar}:conditional-yield",
                            f"{wn} yields `{yvar}` only when `{src(t)}`: this is neither a NULL skip nor a seen-set de-duplication, so some referenced records are not transferred",
                            db.rel,
                            p.lineno,
                        )
                    p = db.parent.get(p)

    r4 = ctx.rule("C23.4", "repeating a transfer adds nothing; tag currency recomputed", floor=3)
    pr = db.func("RedunBackendDb.put_records")
    # a thin front that materialises its argument and delegates: the body that does the work is the delegate's
    for _ in range(2):
        body = [st for st in pr.body if not (isinstance(st, ast.Expr) and isinstance(st.value, ast.Constant))]
        if len(body) == 1 and isinstance(body[0], ast.Return) and isinstance(body[0].value, ast.Call) and (call_name(body[0].value) or "").startswith("self.") and f"RedunBackendDb.{call_name(body[0].value)[5:]}" in db.funcs:
            pr = db.funcs[f"RedunBackendDb.{call_name(body[0].value)[5:]}"]
    t = src(pr)
    ok = "existing_ids = set(self.has_records(record_ids))" in t and "if record_id not in existing_ids" in t and "existing_ids.add(record_id)" in t
    r4.check(ok, f"{db.rel}:RedunBackendDb.put_records:filter", "records already present (or repeated within the batch) are not filtered out before insertion", db.rel, pr.lineno)
    ok = "self._postprocess_new_records()" in t and t.find("self._postprocess_new_records()") < t.find("session.commit()")
    r4.check(ok, f"{db.rel}:RedunBackendDb.put_records:postprocess", "tag currency is not recomputed in the same transaction as the insert", db.rel, pr.lineno)
    pp = db.func("RedunBackendDb._postprocess_new_records")
    ok = "{Tag.is_current: False}" in src(pp) and "TagEdit.parent_id == Tag.tag_hash" in src(pp)
    r4.check(ok, f"{db.rel}:RedunBackendDb._postprocess_new_records", "tags that have a child edit are not marked superseded after import", db.rel, pp.lineno)
    hr = db.func("RedunBackendDb.has_records")
    r4.check("self._model_pks" in src(hr), f"{db.rel}:RedunBackendDb.has_records", "existence is not checked over all transferred models", db.rel, hr.lineno)

    # ---- C23.6 child-edge order survives a transfer ------------------------------------------
    # The serialised CallNode carries its children as a plain list and import numbers them by position.  That reproduces CallEdge.call_order
    # only if (a) the writer numbers the edges it actually records consecutively from 0 and (b) the list is exported in call_order order.
    r6 = ctx.rule("C23.6", "CallEdge.call_order is reproduced by export + import", floor=2)
    rcn = db.func("RedunBackendDb.record_call_node")
    ok_a = None
    for lp in ast.walk(rcn):
        if isinstance(lp, ast.For) and isinstance(lp.iter, ast.Call) and call_name(lp.iter) == "enumerate" and any(isinstance(c, ast.Call) and call_name(c) == "CallEdge" for c in ast.walk(lp)):
            idx = src(lp.target.elts[0]) if isinstance(lp.target, ast.Tuple) else None
            for c in ast.walk(lp):
                if isinstance(c, ast.Call) and call_name(c) == "CallEdge":
                    co = kwarg(c, "call_order")
                    # the edge must be added for every element of the enumerated sequence: no `if` between the loop and the add
                    p = db.parent.get(c)
                    conditional = False
                    while p is not None and p is not lp:
                        if isinstance(p, (ast.If, ast.IfExp)):
                            conditional = True
                        p = db.parent.get(p)
                    ok_a = co is not None and src(co) == idx and not conditional
    if ok_a is None:
        raise AnalysisError("record_call_node: enumerate loop creating CallEdge rows not found", "RedunBackendDb.record_call_node")
    r6.check(
        ok_a,
        f"{db.rel}:RedunBackendDb.record_call_node:call_order-contiguous",
        "call_order is the index in the list of *all* children while edges are written only for recorded children (prov=False children are skipped): the recorded orders have gaps, "
        "and import -- which numbers children by their position in the exported list -- stores different call_order values than the source has",
        db.rel,
        rcn.lineno,
    )
    cser = ser.func("CallNodeSerializer.serialize")
    ch = next((v for n in ast.walk(cser) if isinstance(n, ast.Dict) for k, v in zip(n.keys, n.values) if k is not None and const_str(k) == "children"), None)
    if ch is None:
        raise AnalysisError("CallNodeSerializer.serialize: 'children' not found", "CallNodeSerializer.serialize")
    ordered = any(isinstance(c, ast.Call) and call_name(c) == "sorted" and kwarg(c, "key") is not None and "call_order" in src(kwarg(c, "key")) for c in ast.walk(ch))
    rel_ordered = any(isinstance(n, ast.Call) and call_name(n) == "relationship" and kwarg(n, "order_by") is not None and "call_order" in src(kwarg(n, "order_by")) and "CallEdge" in src(n) for n in ast.walk(db.cls("CallNode")))
    r6.check(ordered or rel_ordered, f"{ser.rel}:CallNodeSerializer.serialize:children-order", "the exported child list is not ordered by call_order (the relationship has no order_by): the imported order depends on the row order the database happens to return", ser.rel, cser.lineno)

    # ---- C23.7 rows that change after they were first written are refreshed by a later transfer -------
    # put_records inserts records whose primary key is new and skips the rest ("repeating a transfer adds nothing", C23.4).  That is right for
    # content-addressed rows; a Job row, however, is written at job start and completed by record_job_end (end_time, call_hash, cached).  A job
    # transferred while it was running is never completed in the destination by any later transfer.
    r7 = ctx.rule("C23.7", "models whose rows are completed after insertion are updated, not skipped, by a repeated transfer", floor=1)
    rje = db.func("RedunBackendDb.record_job_end")
    late_cols = sorted({t.attr for a in ast.walk(rje) if isinstance(a, ast.Assign) for t in a.targets if isinstance(t, ast.Attribute) and isinstance(t.value, ast.Name) and t.attr in ("end_time", "call_hash", "cached")})
    if not late_cols:
        raise AnalysisError("record_job_end: late-written Job columns not found", "RedunBackendDb.record_job_end")
    tpr = src(pr)
    updates_existing = ("merge(" in tpr) or any(isinstance(n, ast.If) and "existing_ids" in src(n.test) and n.orelse for n in ast.walk(pr))
    r7.check(
        updates_existing,
        f"{db.rel}:RedunBackendDb.put_records:existing-job-rows",
        f"record_job_end completes a Job row after it was inserted (columns {late_cols}), but put_records skips every record whose id already exists: a Job exported while it was still running "
        "stays without end_time/call_hash (displayed RUNNING, not linked to its call node) in the destination, however often the finished execution is transferred again",
        db.rel,
        pr.lineno,
    )

    # ---- C23.8 who may create subtree rows ---------------------------------------------------------------------
    # A call node's CallSubtreeTask rows are the destination's licence to replay it shallowly (C03.1: no rows = untrusted).  Only the recorder,
    # which is given the set computed from the job tree, may write them; a transfer that synthesises rows (e.g. "a call without children ran
    # only its own task" -- false for children run with prov=False) makes the destination serve results the source would refuse.
    r8 = ctx.rule("C23.8", "CallSubtreeTask rows are constructed only by record_call_node", floor=1)
    SUBTREE_WRITERS = ("RedunBackendDb.record_call_node",)
    n8 = 0
    for mod8, c in repo.all_calls(lambda c: (call_name(c) or "").split(".")[-1] == "CallSubtreeTask"):
        q8 = mod8.enclosing_qual(c)
        n8 += 1
        r8.check(
            mod8.rel == db.rel and q8 in SUBTREE_WRITERS,
            f"{mod8.rel}:{q8}:constructs-subtree-row",
            f"{q8} constructs CallSubtreeTask rows; only {SUBTREE_WRITERS} (given the subtree set computed from the job tree) may: a transferred call node with made-up subtree rows passes the "
            "`no rows = untrusted` guard of _get_call_node and is replayed although a task beneath it (one that ran with prov=False) changed",
            mod8.rel,
            c.lineno,
        )
    if n8 == 0:
        raise AnalysisError("no CallSubtreeTask(...) construction found", "CallSubtreeTask")
