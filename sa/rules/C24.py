"""C24 -- tag history (clauses only).

The tag edit graph is acyclic by construction (a child's hash depends on its
parents' hashes) and is_current is monotone.  Agreement with the multiset model
over histories is a statement about sequences of database states and is not
decided.
"""

from __future__ import annotations

import ast

from ..core import AnalysisError, arg_or_kw, assigned_targets, call_name, calls_in, kwarg, last_attr, src

EXPLANATION = (
    "C24.1 Merkle premise: in record_tags the `parents` sequence hashed into every tag_hash (hash_tag(entity_id, key, value, parents), after sorted()) "
    "is the same variable from which the TagEdit(parent_id=parent, child_id=tag.tag_hash) rows are built, and hash_tag includes parents in its "
    "pre-image: a child's hash depends on its parents' hashes, so a cycle would need a hash fixpoint; C24.2 every write of Tag.is_current "
    "(repo-wide: attribute assignment, Query.update dicts, constructor keywords) assigns False only; current-tag reads filter on is_current; "
    "C24.3 the CLI commands map to record_tags(new=True), record_tags(update=True) and delete_tags; update collects the current tags with the given "
    "keys as parents; delete supersedes the selected current tags with the delete marker."
)

DB = "redun/backends/db/__init__.py"
CLI = "redun/cli.py"


def run(ctx):
    repo = ctx.repo
    db = repo.mod(DB)
    cli = repo.mod(CLI)
    hm = repo.mod("redun/hashing.py")
    rt = db.func("RedunBackendDb.record_tags")

    r1 = ctx.rule("C24.1", "tag hashes include the parents that the edit rows are built from", floor=3)
    ht = [c for c in calls_in(rt) if call_name(c) == "hash_tag"]
    ok = len(ht) == 1 and [src(a) for a in ht[0].args] == ["entity_id", "key", "value", "parents"]
    r1.check(ok, f"{db.rel}:RedunBackendDb.record_tags:hash_tag", "tag_hash is not hash_tag(entity_id, key, value, parents)", db.rel, rt.lineno)
    te = [c for c in calls_in(rt) if call_name(c) == "TagEdit"]
    ok = False
    for c in te:
        par = db.parent.get(c)
        if isinstance(par, ast.ListComp):
            gens = {src(g.target): src(g.iter) for g in par.generators}
            pk, ck = src(kwarg(c, "parent_id")), src(kwarg(c, "child_id"))
            ok = gens.get(pk) == "parents" and ck.endswith(".tag_hash") and gens.get(ck.split(".")[0]) == "tag_rows"
    r1.check(ok, f"{db.rel}:RedunBackendDb.record_tags:TagEdit", "edit rows are not (parent in parents) x (new tag rows): the recorded parents could differ from the hashed ones", db.rel, rt.lineno)
    srt = [n for n in ast.walk(rt) if isinstance(n, ast.Assign) and src(n.targets[0]) == "parents" and src(n.value) == "sorted(parents)"]
    ok = bool(srt) and ht and srt[0].lineno < ht[0].lineno and all(c.lineno > srt[0].lineno for c in te)
    later = [n for n in ast.walk(rt) if isinstance(n, (ast.Assign, ast.AugAssign)) and src(n.targets[0] if isinstance(n, ast.Assign) else n.target) == "parents" and n.lineno > (srt[0].lineno if srt else 0)]
    r1.check(ok and not later, f"{db.rel}:RedunBackendDb.record_tags:parents-canonical", "parents are not canonicalised (sorted) once before hashing and left unchanged until the edit rows are built", db.rel, rt.lineno)
    hf = hm.func("hash_tag")
    ok = any(isinstance(r, ast.Return) and isinstance(r.value, ast.Call) and "parents" in [src(e) for e in r.value.args[0].elts] and src(r.value.args[0].elts[0]) == "'Tag'" for r in ast.walk(hf))
    r1.check(ok, f"{hm.rel}:hash_tag", "hash_tag does not include the parents in its pre-image", hm.rel, hf.lineno)

    r2 = ctx.rule("C24.2", "is_current only ever becomes False", floor=3)
    nw = 0
    for mod in repo.modules.values():
        for n in ast.walk(mod.tree):
            vals = []
            if isinstance(n, (ast.Assign, ast.AugAssign)):
                for t in assigned_targets(n):
                    if isinstance(t, ast.Attribute) and t.attr == "is_current":
                        vals.append(n.value)
            elif isinstance(n, ast.Dict):
                for k, v in zip(n.keys, n.values):
                    if k is not None and src(k).endswith("is_current"):
                        vals.append(v)
            elif isinstance(n, ast.Call) and call_name(n) in ("Tag", "db.Tag"):
                v = kwarg(n, "is_current")
                if v is not None:
                    vals.append(v)
            for v in vals:
                nw += 1
                ok = isinstance(v, ast.Constant) and v.value is False
                r2.check(ok, f"{mod.rel}:{mod.enclosing_qual(n)}:is_current={src(v)}", f"is_current is set to `{src(v)}`: a superseded tag could become current again (the history would no longer be monotone)", mod.rel, n.lineno)
    if nw < 2:
        raise AnalysisError(f"only {nw} writes of is_current found", "Tag.is_current")
    col = [n for n in ast.walk(db.cls("Tag")) if isinstance(n, ast.Assign) and src(n.targets[0]) == "is_current"]
    r2.check(bool(col) and "default=True" in src(col[0].value), f"{db.rel}:Tag.is_current:default", "new tags are not current by default", db.rel, 0)
    gt = db.func("RedunBackendDb.get_tags")
    r2.check("Tag.is_current.is_(True)" in src(gt), f"{db.rel}:RedunBackendDb.get_tags", "reading an entity's tags does not filter on is_current", db.rel, gt.lineno)
    inv = [n for n in ast.walk(rt) if isinstance(n, ast.Call) and last_attr(n) == "update" and "is_current" in src(n)]
    ok = len(inv) == 1 and "Tag.tag_hash.in_(parents)" in src(inv[0])
    r2.check(ok, f"{db.rel}:RedunBackendDb.record_tags:supersede", "recording tags does not mark exactly the parent tags as superseded", db.rel, rt.lineno)

    r3 = ctx.rule("C24.3", "CLI commands map to add(new) / update / delete operations", floor=5)
    for q, kw in (("RedunClient.tag_add_command", "new"), ("RedunClient.tag_update_command", "update")):
        fn = cli.func(q)
        cs = [c for c in calls_in(fn) if last_attr(c) == "record_tags"]
        ok = len(cs) == 1 and kwarg(cs[0], kw) is not None and src(kwarg(cs[0], kw)) == "True" and len(cs[0].keywords) == 1
        r3.check(ok, f"{cli.rel}:{q}", f"{q} does not call record_tags(..., {kw}=True)", cli.rel, fn.lineno)
    rm = cli.func("RedunClient.tag_rm_command")
    cs = [c for c in calls_in(rm) if last_attr(c) == "delete_tags"]
    ok = len(cs) == 1 and "keys" in src(cs[0]) and "key_values" in src(cs[0])
    r3.check(ok, f"{cli.rel}:RedunClient.tag_rm_command", "tag rm does not call delete_tags with the given pairs and keys", cli.rel, rm.lineno)
    t = src(rt)
    ok = False
    for n in ast.walk(rt):
        if isinstance(n, ast.If) and src(n.test) == "update":
            b = " ".join(src(x) for x in n.body)
            ok = "Tag.is_current.is_(True)" in b and "Tag.entity_id == entity_id" in b and "Tag.key.in_(keys)" in b and "new = True" in b and "parents.extend(" in b
    r3.check(ok, f"{db.rel}:RedunBackendDb.record_tags:update", "update does not supersede all current tags of the entity with the given keys", db.rel, rt.lineno)
    dt = db.func("RedunBackendDb.delete_tags")
    t = src(dt)
    ok = "Tag.is_current.is_(True)" in t and "Tag.entity_id == entity_id" in t and "or_(*conditions)" in t and "Tag.get_delete_tag()" in t and "parents=parents" in t
    r3.check(ok, f"{db.rel}:RedunBackendDb.delete_tags", "delete does not supersede the selected current tags with the delete marker", db.rel, dt.lineno)
    ok = False
    for n in ast.walk(rt):
        if isinstance(n, ast.If) and src(n.test) == "new":
            b = " ".join(src(x) for x in n.body)
            ok = "TagEdit.parent_id.in_(tag_hashes)" in b and "parents=[tag_row.tag_hash]" in b and "new=True" in b
    r3.check(ok, f"{db.rel}:RedunBackendDb.record_tags:new", "re-adding a superseded pair does not walk to a fresh leaf of the edit graph (it would stay superseded)", db.rel, rt.lineno)

    # ---- C24.4 selecting pairs by value must work for every JSON value, including null ---------------
    r4 = ctx.rule("C24.4", "value equality filters on Tag.value handle JSON null", floor=1)
    nsel = 0
    for q, fn in db.funcs.items():
        if not (q.startswith("RedunBackendDb.") and q.endswith("_tags")):
            continue  # the tag-command API (record/delete/update/get _tags); internal context-hash lookups are C05's
        for n in ast.walk(fn):
            if isinstance(n, ast.Compare) and len(n.ops) == 1 and isinstance(n.ops[0], ast.Eq) and src(n.left) == "Tag.value":
                rhs = n.comparators[0]
                if isinstance(rhs, ast.Constant):
                    continue
                nsel += 1
                # the compared Python value: the argument of a cast, or the operand itself
                pv = rhs.args[0] if isinstance(rhs, ast.Call) and rhs.args else rhs
                handled = any(
                    isinstance(t, (ast.IfExp, ast.If)) and (f"{src(pv)} is None" in src(t.test) or f"{src(pv)} is not None" in src(t.test)) and any(n is x for x in ast.walk(t))
                    for t in ast.walk(fn)
                )
                r4.check(
                    handled,
                    f"{db.rel}:{q}:Tag.value=={src(pv)}",
                    f"`{src(n)}` selects tags by value, but for {src(pv)} = None (the JSON value null, written `key=` on the command line) the right-hand side is SQL NULL and `= NULL` is never true: "
                    "the pair k=null can be added and listed but never deleted by value",
                    db.rel,
                    n.lineno,
                )
    if nsel == 0:
        raise AnalysisError("no value-equality selection on Tag.value found (anchor vanished)", "RedunBackendDb.delete_tags")

    # ---- C24.5 one row per tag hash in a single recording call --------------------------------
    # record_tags inserts the new Tag / TagEdit rows with add_all(); both tables are keyed by hashes of their content, so the same pair given twice
    # in one call (tag add X j=1 j=1; two apply_tags with equal job tags in one job) must collapse to one row or the INSERT violates the key.
    r5 = ctx.rule("C24.5", "rows inserted by record_tags are de-duplicated by their primary key", floor=2)
    PK = {"new_tags": ("tag_hash",), "new_tag_edits": ("parent_id", "child_id")}
    nadd = 0
    for c in calls_in(rt):
        if last_attr(c) == "add_all" and c.args and isinstance(c.args[0], ast.Name) and c.args[0].id in PK:
            nadd += 1
            name = c.args[0].id
            defs = [n for n in ast.walk(rt) if isinstance(n, ast.Assign) and src(n.targets[0]) == name]
            ok = False
            for d in defs:
                for x in ast.walk(d.value):
                    if isinstance(x, ast.DictComp):
                        k = src(x.key)
                        ok = ok or all(f".{col}" in k for col in PK[name])
                    if isinstance(x, ast.SetComp) and all(f".{col}" in src(x.elt) for col in PK[name]) and not isinstance(x.elt, ast.Name):
                        ok = True
            r5.check(
                ok,
                f"{db.rel}:RedunBackendDb.record_tags:{name}:dedup",
                f"`{name}` is a collection of row objects (distinct objects for equal pairs) that is not keyed by {PK[name]}: giving the same key=value twice for one entity in one call inserts two rows "
                "with the same hash and the whole recording fails with a UNIQUE-constraint IntegrityError",
                db.rel,
                c.lineno,
            )
    if nadd < 2:
        raise AnalysisError("record_tags: add_all(new_tags) / add_all(new_tag_edits) not found", "RedunBackendDb.record_tags")
