"""C25 -- handle lineage and rollback (clauses only).

Every handle transformation performed by the scheduler is recorded as a lineage
edge, every real execution consults/rolls back lineage first, validity is the
backend's flag and rollback invalidates exactly the descendants.  Agreement with
a lineage model over histories is not decided.
"""

from __future__ import annotations

import ast

from ..cfg import CFG, facts_at
from ..core import AnalysisError, call_name, calls_in, kwarg, last_attr, src
from ..lifecycle import SCHED, Lifecycle

EXPLANATION = (
    "C25.1 transform => edge: in _preprocess_args and _postprocess_result, on every path where the value is a Handle, the call of "
    "type_registry.preprocess/postprocess is followed by backend.advance_handle([value], value2) (post-processing: outside dry-run); merge_handles "
    "advances too; Handle.preprocess forks and postprocess applies the call hash; C25.2 _perform_rollbacks dominates _consume_resources and both "
    "executor submits on the non-dry-run path and visits every Handle leaf of (args, kwargs); C25.3 Handle.is_valid delegates to "
    "backend.is_valid_handle (falsy for unrecorded hashes); advance_handle records new states as valid (re-deriving a state makes it valid again via "
    "get_or_create defaults); rollback_handle invalidates the transitive children of the handle over every recorded edge of same-name handles (no is_valid restriction on the walked edges: a re-derived valid state may sit below an invalid one)."
    ' C25.3 also: a (fork parent, fork) lineage pair may be gated by is_recorded of the fork only, never of the fork parent (guards of the collecting comprehension / append site).'
)

DB = "redun/backends/db/__init__.py"


def run(ctx):
    repo = ctx.repo
    m = repo.mod(SCHED)
    db = repo.mod(DB)
    hm = repo.mod("redun/handle.py")

    r1 = ctx.rule("C25.1", "every handle transformation is recorded as a lineage edge", floor=4)
    for q, meth, needs_nodry in (("Scheduler._preprocess_args", "preprocess", False), ("Scheduler._postprocess_result", "postprocess", True)):
        outer = m.func(q)
        inner = next((f for f in ast.walk(outer) if isinstance(f, (ast.FunctionDef,)) and f is not outer), None)
        if inner is None:
            raise AnalysisError(f"{q}: per-value closure not found", q)
        cfg = CFG(inner)
        v = inner.args.args[0].arg
        tr = [c for c in calls_in(inner, shallow=True) if last_attr(c) == meth and "type_registry" in (call_name(c) or "")]
        adv = [c for c in calls_in(inner, shallow=True) if (call_name(c) or "").endswith("backend.advance_handle")]
        ok = len(tr) == 1 and len(adv) == 1
        if ok:
            a = adv[0]
            out = next((n for n in ast.walk(inner) if isinstance(n, ast.Assign) and n.value is tr[0]), None)
            ok = out is not None and src(a.args[0]) == f"[{v}]" and src(a.args[1]) == src(out.targets[0])
            facts = facts_at(cfg, cfg.node_of(a))
            ok = ok and (f"isinstance({v}, Handle)", True) in facts
            extra = {f for f in facts if f[0] not in (f"isinstance({v}, Handle)",)}
            if needs_nodry:
                ok = ok and extra <= {("self._dryrun", False)}
            else:
                ok = ok and not extra
            # the transformed value is what is returned
            rets = [src(r.value) for r in ast.walk(inner) if isinstance(r, ast.Return)]
            ok = ok and out is not None and rets == [src(out.targets[0])]
        r1.check(bool(ok), f"{m.rel}:{q}:advance", f"a Handle transformed by {meth}() is not recorded with backend.advance_handle([old], new) on every (non-dry-run) path, or the transformed value is not the one used", m.rel, outer.lineno)
        r1.check(any(call_name(c) == "map_nested_value" and c.args and src(c.args[0]) == inner.name for c in calls_in(outer, shallow=True)), f"{m.rel}:{q}:all-leaves", "the transformation is not mapped over every leaf of the nested value", m.rel, outer.lineno)
    mh = m.funcs.get("merge_handles.then")
    ok = mh is not None and "scheduler.backend.advance_handle(other_handles, final_handle)" in src(mh)
    r1.check(bool(ok), f"{m.rel}:merge_handles", "merging handles does not record the merged state's parents", m.rel, getattr(mh, "lineno", 0))
    hp, hq = hm.func("Handle.preprocess"), hm.func("Handle.postprocess")
    ok = "self.fork(" in src(hp) and "preprocess_args['call_order']" in src(hp) and "self.apply_call(postprocess_args['pre_call_hash'])" in src(hq)
    r1.check(ok, f"{hm.rel}:Handle.preprocess/postprocess", "a handle is not forked on entry / advanced by the call's hash on exit", hm.rel, hp.lineno)

    r2 = ctx.rule("C25.2", "rollbacks precede resource use and submission and visit every Handle leaf", floor=3)
    lc = Lifecycle(repo)
    ex = m.func(lc.EXEC)
    cfg = CFG(ex)
    rb = [cfg.node_of(c) for c in calls_in(ex, shallow=True) if call_name(c) == "self._perform_rollbacks"]
    if len(rb) != 1:
        r2.violation(f"{m.rel}:{lc.EXEC}:rollback-call", f"the exec handler calls _perform_rollbacks {len(rb)} times (expected once, before resources are consumed): conflicting handle states are not rolled back before the task runs", m.rel, ex.lineno)
        for r in ctx.rules:
            r.floor = 0
        return
    for c in calls_in(ex, shallow=True):
        if call_name(c) == "self._consume_resources":
            r2.check(cfg.dominates(rb[0], cfg.node_of(c)), f"{m.rel}:{lc.EXEC}:rollback-before-consume", "resources can be consumed without rolling back conflicting handle states first", m.rel, c.lineno)
    nsub = 0
    bad = None
    for ps in lc.handlers[lc.EXEC].paths():
        evs = [e for e in ps.events if e == ("cont", "submit") or (e[0] == "call" and e[1] == "self._perform_rollbacks")]
        if ("cont", "submit") in evs:
            nsub += 1
            if evs.index(("cont", "submit")) == 0:
                bad = ps
    if nsub == 0:
        raise AnalysisError("exec handler: no path reaches a submit", lc.EXEC)
    r2.check(bad is None, f"{m.rel}:{lc.EXEC}:rollback-before-submit", "a path hands the job to an executor without first rolling back conflicting handle states", m.rel, ex.lineno, note=f"{nsub} submitting paths")
    pr = m.func("Scheduler._perform_rollbacks")
    t = src(pr)
    ok = "iter_nested_value((args, kwargs))" in t and "isinstance(value, Handle)" in t and "self.backend.rollback_handle(value)" in t
    r2.check(ok, f"{m.rel}:Scheduler._perform_rollbacks", "not every Handle leaf of the arguments is rolled back", m.rel, pr.lineno)
    # the only condition on the rollback is "the leaf is a Handle": rollback_handle(h) invalidates the descendants of that *state*, so two
    # states of one handle name each need their own rollback (no de-duplication by name, no early exit from the loop)
    pcfg = CFG(pr)
    rbc = [c for c in calls_in(pr) if call_name(c) == "self.backend.rollback_handle"]
    if not rbc:
        raise AnalysisError("_perform_rollbacks no longer calls backend.rollback_handle", "Scheduler._perform_rollbacks")
    for c in rbc:
        fs = facts_at(pcfg, pcfg.node_of(c))
        extra = sorted(f"{'' if t_ else 'not '}{f}" for f, t_ in fs if not (t_ and f.replace(" ", "").startswith("isinstance(") and f.replace(" ", "").endswith(",Handle)")))
        leaves = [n for n in ast.walk(pr) if isinstance(n, (ast.Break, ast.Return, ast.Continue))]
        r2.check(
            not extra and not leaves,
            f"{m.rel}:Scheduler._perform_rollbacks:every-handle-state",
            f"the rollback of a Handle argument is also conditional on {extra or 'a break/continue/return in the loop'}: a task given two states (forks) of one handle name rolls back only one of them, states "
            "derived from the other stay valid after the task is edited and re-run, and a revert replays the stale cached result",
            m.rel,
            c.lineno,
        )
    call = next(c for c in calls_in(ex, shallow=True) if call_name(c) == "self._perform_rollbacks")
    r2.check([src(a) for a in call.args] == ["args", "kwargs"], f"{m.rel}:{lc.EXEC}:rollback-args", "rollbacks are not computed from the job's preprocessed arguments", m.rel, call.lineno)

    r3 = ctx.rule("C25.3", "validity is the backend flag; advance validates, rollback invalidates the transitive children", floor=5)
    hv = hm.func("Handle.is_valid")
    ok = any(isinstance(r, ast.Return) and src(r.value) == "scheduler.backend.is_valid_handle(self)" for r in ast.walk(hv))
    r3.check(ok, f"{hm.rel}:Handle.is_valid", "Handle.is_valid does not return the backend's verdict", hm.rel, hv.lineno)
    ah = db.func("RedunBackendDb.advance_handle")
    goc = [c for c in calls_in(ah) if call_name(c) == "get_or_create" and len(c.args) >= 2 and src(c.args[1]) == "Handle"]
    ok = len(goc) >= 3 and all(len(c.args) >= 4 and src(c.args[3]) == "{'is_valid': True}" for c in goc)
    r3.check(ok, f"{db.rel}:RedunBackendDb.advance_handle:valid", "handle states created by advance_handle are not recorded as valid", db.rel, ah.lineno)
    he = [c for c in calls_in(ah) if call_name(c) == "get_or_create" and len(c.args) >= 2 and src(c.args[1]) == "HandleEdge"]
    ok = any("'parent_id': parent_handle.__handle__.hash" in src(c) and "'child_id': child_handle.__handle__.hash" in src(c) for c in he)
    r3.check(ok, f"{db.rel}:RedunBackendDb.advance_handle:edge", "advance_handle does not record the parent->child lineage edge", db.rel, ah.lineno)
    # forks: a state created by handle.fork(key) derives from the forked state.  advance_handle back-fills Handle rows along the
    # `fork_parent` chain of unrecorded parents; each such derivation needs its own lineage edge, or a rollback of the original never reaches the fork.
    tainted: set[str] = set()
    changed = True
    while changed:
        changed = False
        for n in ast.walk(ah):
            tgt, val = None, None
            if isinstance(n, ast.Assign):
                tgt, val = n.targets[0], n.value
            elif isinstance(n, (ast.For, ast.comprehension)):
                tgt, val = n.target, n.iter
            elif isinstance(n, ast.Expr) and isinstance(n.value, ast.Call) and isinstance(n.value.func, ast.Attribute) and n.value.func.attr in ("append", "extend") and isinstance(n.value.func.value, ast.Name):
                tgt, val = n.value.func.value, n.value
            if tgt is None:
                continue
            if "fork_parent" in src(val) or any(isinstance(x, ast.Name) and x.id in tainted for x in ast.walk(val)):
                for x in ast.walk(tgt):
                    if isinstance(x, ast.Name) and x.id not in tainted:
                        tainted.add(x.id)
                        changed = True
    backfills = [c for c in goc if any(isinstance(x, ast.Name) and x.id in tainted for x in ast.walk(c))]
    fork_edges = []
    for c in he:
        d = next((a for a in c.args if isinstance(a, ast.Dict)), None)
        if d is None:
            continue
        pv = next((v for k, v in zip(d.keys, d.values) if k is not None and src(k) == "'parent_id'"), None)
        if pv is not None and ("fork_parent" in src(pv) or any(isinstance(x, ast.Name) and x.id in tainted for x in ast.walk(pv))):
            fork_edges.append(c)
    if backfills:
        r3.check(
            bool(fork_edges),
            f"{db.rel}:RedunBackendDb.advance_handle:fork-edge",
            "advance_handle back-fills Handle rows for the `fork_parent` chain of its parents but records no HandleEdge from a fork parent to its fork: a state produced by "
            "handle.fork(key) is not a descendant of the forked state in the lineage graph, so rolling back (re-deriving) the original leaves the fork and every cached result "
            "containing it valid and replayable",
            db.rel,
            backfills[0].lineno,
        )
        # every (fork parent, fork) pair must be collected whenever the fork itself is being recorded now: the only `is_recorded` test
        # that may gate a pair is the one on the fork (its edge was written when it was recorded); that the fork *parent* is already
        # recorded says nothing about the edge to this fork.
        acfg = CFG(ah)
        pair_sites = 0
        for c in fork_edges:
            lp = db.parent.get(c)
            while lp is not None and not isinstance(lp, ast.For):
                lp = db.parent.get(lp)
            if lp is None or not isinstance(lp.iter, ast.Name):
                continue
            coll = lp.iter.id
            for n in ast.walk(ah):
                pairs = []
                if isinstance(n, ast.Assign) and any(isinstance(t, ast.Name) and t.id == coll for t in n.targets) and isinstance(n.value, ast.ListComp) and isinstance(n.value.elt, ast.Tuple) and len(n.value.elt.elts) == 2:
                    conds = [i for g in n.value.generators for i in g.ifs]
                    pairs.append((n.value.elt, conds, n.lineno))
                elif isinstance(n, ast.Expr) and isinstance(n.value, ast.Call) and src(n.value.func) == f"{coll}.append" and n.value.args and isinstance(n.value.args[0], ast.Tuple) and len(n.value.args[0].elts) == 2:
                    conds = []
                    for f, tv in facts_at(acfg, acfg.node_of(n)):
                        try:
                            conds.append(ast.parse(f, mode="eval").body)
                        except SyntaxError:
                            pass
                    pairs.append((n.value.args[0], conds, n.lineno))
                for tup, conds, ln in pairs:
                    pair_sites += 1
                    fork_txt = src(tup.elts[1])
                    bad = []
                    for cnd in conds:
                        for a in ast.walk(cnd):
                            if isinstance(a, ast.Attribute) and a.attr == "is_recorded":
                                recv = src(a.value).replace(".__handle__", "")
                                if recv != fork_txt:
                                    bad.append(src(cnd))
                    r3.check(
                        not bad,
                        f"{db.rel}:RedunBackendDb.advance_handle:fork-edge-guard",
                        f"the lineage pair ({src(tup.elts[0])}, {fork_txt}) is collected only when `{bad[0] if bad else ''}`: whether the fork *parent* is already recorded does not "
                        "tell whether the edge to this (so far unrecorded) fork exists; a chain of forks taken from a recorded handle loses its edge to that handle, and a rollback there "
                        "never reaches the forks",
                        db.rel,
                        ln,
                    )
        if fork_edges and pair_sites < 2:
            raise AnalysisError("advance_handle: fewer than 2 sites collect (fork parent, fork) pairs (direct parents, back-filled chain)", "advance_handle")
    else:
        r3.good(f"{db.rel}:RedunBackendDb.advance_handle:fork-edge", "no fork back-fill in advance_handle")
    rh = db.func("RedunBackendDb.rollback_handle")
    t = src(rh)
    ok = "Handle.fullname == handle.__handle__.fullname" in t and "lookups[handle.__handle__.hash]" in t and "queue.extend(lookups[handle_hash])" in t and "{Handle.is_valid: False}" in t
    r3.check(ok, f"{db.rel}:RedunBackendDb.rollback_handle", "rollback does not invalidate the transitive children of the handle among the handles of the same name", db.rel, rh.lineno)
    # the edge set the walk runs over: every recorded edge of that handle name.  Restricting it to edges that leave a currently *valid* state stops the walk at a
    # state invalidated earlier -- but advance_handle re-validates a state (get_or_create defaults) without touching its ancestors, so a valid, re-derived
    # descendant can sit below an invalid state and would survive a rollback further up.
    edge_q = [n for n in ast.walk(rh) if isinstance(n, ast.Call) and isinstance(n.func, ast.Attribute) and n.func.attr in ("filter", "filter_by") and "HandleEdge" in src(n)]
    if not edge_q:
        raise AnalysisError("rollback_handle: the query that loads the lineage edges was not found", "RedunBackendDb.rollback_handle")
    for qn in edge_q:
        restricted = [src(a) for a in list(qn.args) + [k.value for k in qn.keywords] if "is_valid" in src(a)]
        r3.check(
            not restricted,
            f"{db.rel}:RedunBackendDb.rollback_handle:all-edges",
            f"rollback_handle walks only edges whose parent row satisfies `{'; '.join(restricted)}`: history advance([R],P); advance([R],Q); advance([P],M); advance([M,Q],D); rollback(P); advance([Q],D) "
            "(D valid again, M still invalid); rollback(P) leaves D valid although it is derived from P through M",
            db.rel,
            qn.lineno,
        )
    own = "invalid_hashes.add(handle.__handle__.hash)" in t
    r3.check(not own, f"{db.rel}:RedunBackendDb.rollback_handle:self", "rollback invalidates the rolled-back state itself", db.rel, rh.lineno)
    gm = repo.mod("redun/db_utils.py").func("get_or_create")
    tg = src(gm)
    ok = "insert.update(update)" in tg and "setattr(row, key, value)" in tg and "Model(**insert)" in tg
    r3.check(ok, "redun/db_utils.py:get_or_create", "get_or_create does not apply the update dict both to new and to existing rows (re-deriving an invalidated state would not make it valid again)", "redun/db_utils.py", gm.lineno)

    # ---- C25.4 fork lineage survives the trip through a process / remote executor ----------------
    # advance_handle derives the (fork parent -> fork) edge from two in-memory fields: fork_parent and is_recorded.  A Handle that comes back from a
    # task run by an executor that pickles results has lost the first (not part of HandleInfo.get_state) and has the second forced to True by
    # Handle.__setstate__, so an explicit fork made inside such a task reaches advance_handle looking like an already recorded, parentless state.
    r4 = ctx.rule("C25.4", "the fields advance_handle derives fork edges from survive pickling, or advance_handle has a fallback for unpickled forks", floor=1)
    gs = hm.func("Handle.HandleInfo.get_state") if "Handle.HandleInfo.get_state" in hm.funcs else next((f for q, f in hm.funcs.items() if q.endswith("HandleInfo.get_state")), None)
    if gs is None:
        raise AnalysisError("HandleInfo.get_state not found", "HandleInfo.get_state")
    keys = {k.value for n in ast.walk(gs) if isinstance(n, ast.Dict) for k in n.keys if isinstance(k, ast.Constant)}
    ss = next((f for q, f in hm.funcs.items() if q.endswith("Handle.__setstate__")), None)
    forces_recorded = ss is not None and any(isinstance(a, ast.Assign) and src(a.targets[0]).endswith(".is_recorded") and src(a.value) == "True" for a in ast.walk(ss))
    fallback = "call_hash" in src(ah) and any(isinstance(c, ast.Compare) or isinstance(c, ast.BoolOp) for c in ast.walk(ah) if "fork_parent" in src(c) and "call_hash" in src(c))
    r4.check(
        "fork_parent" in keys or not forces_recorded or fallback,
        f"{hm.rel}:Handle.__setstate__:fork-lineage-lost",
        "HandleInfo.get_state does not serialise fork_parent and Handle.__setstate__ sets is_recorded = True: `step(conn.fork('a'), 1)` returned by a task run with executor='process' (any executor that pickles "
        "results) reaches advance_handle as a recorded, parentless state, no parent->fork HandleEdge is written, and rolling back an ancestor leaves the fork's descendants valid -- after editing and reverting an "
        "upstream task the stale cached state is replayed (the thread executor handles the same history correctly)",
        hm.rel,
        ss.lineno if ss is not None else gs.lineno,
    )

    # ---- C25.5 a fork first recorded as the *child* of an advance also gets its edge -----------------
    # merge_handles(handles) calls advance_handle(handles[1:], handles[0]): the merged state is the first handle itself.  If that handle is an
    # explicit fork that has not been recorded yet, it enters advance_handle as the child; the fork-edge collection must look at it as well.
    r5 = ctx.rule("C25.5", "advance_handle considers the child handle's fork_parent, not only the parents'", floor=1)
    chp = ah.args.args[2].arg if len(ah.args.args) > 2 else "child_handle"
    considered = any(
        isinstance(n, ast.Attribute) and n.attr == "fork_parent" and chp in {x.id for x in ast.walk(n.value) if isinstance(x, ast.Name)}
        for n in ast.walk(ah)
    ) or any(
        isinstance(n, (ast.List, ast.Tuple, ast.BinOp)) and chp in {x.id for x in ast.walk(n) if isinstance(x, ast.Name)} and any(isinstance(p, (ast.comprehension, ast.For)) and any(n is z for z in ast.walk(p.iter)) for p in ast.walk(ah))
        for n in ast.walk(ah)
    )
    if not considered:
        # a local that holds the child next to the parents, iterated by the collecting loops/comprehensions
        holders = {src(a.targets[0]) for a in ast.walk(ah) if isinstance(a, ast.Assign) and isinstance(a.targets[0], ast.Name) and chp in {x.id for x in ast.walk(a.value) if isinstance(x, ast.Name)}}
        iters = {src(p.iter) for p in ast.walk(ah) if isinstance(p, (ast.comprehension, ast.For))}
        pair_iters = {src(g.iter) for n in ast.walk(ah) if isinstance(n, ast.ListComp) and "fork_parent" in src(n) for g in n.generators}
        considered = bool(holders & iters & pair_iters)
    r5.check(
        considered,
        f"{db.rel}:RedunBackendDb.advance_handle:child-fork-parent",
        f"advance_handle collects (fork parent, fork) pairs from its parent handles only: merge_handles([st.fork('a'), other]) passes the unrecorded fork as `{chp}`, it is marked recorded without an edge "
        "from `st`, and a rollback at or above `st` leaves the fork and everything derived from it valid",
        db.rel,
        ah.lineno,
    )
