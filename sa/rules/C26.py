"""C26 -- context is inherited and overridden as documented (structural clauses).

Precedence order at every merge site, the recursive shape of merge_dicts, and the
guards of the dotted-path lookup.  The merged values themselves are not decided.
"""

from __future__ import annotations

import ast

from ..cfg import CFG, facts_at
from ..core import AnalysisError, FuncNode, last_attr, call_name, calls_in, kwarg, src

EXPLANATION = (
    "C26.1 the merge_dicts([...]) sites list their operands from weakest to strongest: Job.get_context [parent context, call-time override] with the "
    "parent term = parent_job.get_context() or the execution's context; Scheduler.run [configured context, run argument]; Task.update_context "
    "[previous override, context, kwargs]; C26.2 merge_dicts returns the last operand when any operand is not a dict and merges recursively per key "
    "otherwise (operand order preserved); C26.3 get_context_value subscripts only behind isinstance(value, dict) in the same iteration, inside "
    "try/except KeyError returning the default; the get_context scheduler task evaluates parent_job.get_context(); C26.4 the override reaches the job "
    "through the `_context_override` option written by update_context and read by get_context; extend_run passes the context as the parent's override; "
    "C26.5 Scheduler._pending_expr is keyed by the parent job object, and JobEnv (the environment under which a call's default arguments are evaluated with the "
    "new job's context) compares by identity: any __eq__/__hash__ in its MRO must read every field JobEnv.__init__ sets, and no dataclass-generated equality."
)


def run(ctx):
    repo = ctx.repo
    sm = repo.mod("redun/scheduler.py")
    tm = repo.mod("redun/task.py")
    um = repo.mod("redun/utils.py")
    cm = repo.mod("redun/context.py")

    def merge_ops(fn):
        out = []
        for c in calls_in(fn):
            if call_name(c) == "merge_dicts" and c.args and isinstance(c.args[0], ast.List):
                out.append((c, [src(e) for e in c.args[0].elts]))
        return out

    r1 = ctx.rule("C26.1", "merge operands are ordered weakest to strongest at every context merge site", floor=3)
    gc = sm.func("Job.get_context")
    ops = merge_ops(gc)
    ok = len(ops) == 1 and len(ops[0][1]) == 2
    if ok:
        a, b = ops[0][1]
        adef = [n for n in ast.walk(gc) if isinstance(n, ast.Assign) and src(n.targets[0]) == a]
        bdef = [n for n in ast.walk(gc) if isinstance(n, ast.Assign) and src(n.targets[0]) == b]
        ok = len(adef) == 1 and isinstance(adef[0].value, ast.IfExp) and src(adef[0].value.body) == "self.parent_job.get_context()" and src(adef[0].value.test) == "self.parent_job" and src(adef[0].value.orelse) == "self.execution.context"
        ok = ok and len(bdef) == 1 and "'_context_override'" in src(bdef[0].value) and "self.get_option(" in src(bdef[0].value)
    r1.check(bool(ok), f"{sm.rel}:Job.get_context:merge", f"a job's context is not merge_dicts([parent's (or execution's) context, this call's _context_override]) (operands {ops[0][1] if ops else None})", sm.rel, gc.lineno)
    rn = sm.func("Scheduler.run")
    ops = merge_ops(rn)
    r1.check(len(ops) == 1 and ops[0][1] == ["self._context", "context"], f"{sm.rel}:Scheduler.run:merge", f"root context is not merge_dicts([configured context, context passed to run]) ({ops[0][1] if ops else None})", sm.rel, rn.lineno)
    uc = tm.func("Task.update_context")
    ops = merge_ops(uc)
    ok = len(ops) == 1 and ops[0][1][1:] == ["context", "kwargs"]
    if ok:
        pdef = [n for n in ast.walk(uc) if isinstance(n, ast.Assign) and src(n.targets[0]) == ops[0][1][0]]
        ok = len(pdef) == 1 and "'_context_override'" in src(pdef[0].value) and src(pdef[0].value).startswith("self.")  # how it is read is C26.4's obligation
        c = ops[0][0]
        par = tm.parent.get(c)
        ok = ok and isinstance(par, ast.keyword) and par.arg == "_context_override"
    r1.check(bool(ok), f"{tm.rel}:Task.update_context:merge", "update_context does not merge [previous override, context, kwargs] into the `_context_override` option", tm.rel, uc.lineno)

    r2 = ctx.rule("C26.2", "merge_dicts: last operand wins for non-dicts, recursive per-key merge otherwise", floor=2)
    md = um.func("merge_dicts")
    cfg = CFG(md)
    p = md.args.args[0].arg
    okl = False
    okr = False
    for n in cfg.nodes:
        if n.kind == "stmt" and isinstance(n.ast, ast.Return):
            facts = facts_at(cfg, n)
            v = src(n.ast.value)
            if f"{p}[-1]" in v and any(t and "not isinstance(" in f and "dict" in f and "any(" in f for f, t in facts):
                okl = True
            if "merge_dicts(values)" in v and isinstance(n.ast.value, (ast.Call, ast.DictComp)):
                okr = True
    r2.check(okl, f"{um.rel}:merge_dicts:non-dict", "for non-dict operands the last one does not take precedence", um.rel, md.lineno)
    # a non-dict operand replaces what came before it; dict operands *after* the last non-dict still merge with each other (that is what applying
    # the overrides one after the other gives).  `return dicts[-1]` for every mixed list drops all but the last of them.
    mixed_tests = [n for n in cfg.nodes if n.kind == "test" and isinstance(n.ast, ast.expr) and "any(" in src(n.ast) and "isinstance(" in src(n.ast) and "dict" in src(n.ast)]
    if not mixed_tests:
        raise AnalysisError("merge_dicts: the `any(not isinstance(.., dict))` test was not found", "merge_dicts")
    suffix_merged = False
    for mt in mixed_tests:
        for e in cfg.edge_nodes(mt, "T"):
            for n in cfg.nodes:
                if n.kind == "stmt" and n.ast is not None and cfg.dominates(e, n) and any(isinstance(c, ast.Call) and call_name(c) == "merge_dicts" for c in ast.walk(n.ast)):
                    suffix_merged = True
    r2.check(
        suffix_merged,
        f"{um.rel}:merge_dicts:mappings-after-last-scalar",
        "when any operand is not a dict merge_dicts returns the last operand alone: merge_dicts([{'a': 5}, {'a': {'x': 1}}, {'a': {'y': 2}}]) gives {'a': {'y': 2}} where merging one "
        "after the other gives {'a': {'x': 1, 'y': 2}} -- update_context({'a': {'x': 1}}, a={'y': 2}) under an inherited scalar `a` loses the first override",
        um.rel,
        md.lineno,
    )
    t = src(md)
    okr = okr and f"for dct in {p}:" in t and "key2values[key].append(value)" in t
    from ..flow import merge_purity_obligations

    purity = merge_purity_obligations(repo)
    if not okr:
        # another way of writing the merge: accepted when it is recursive (directly or through a helper) and does not write into its inputs
        recursive = any(isinstance(c, ast.Call) and isinstance(c.func, ast.Name) and c.func.id in um.funcs for c in ast.walk(md))
        okr = recursive and all(ok for _, ok, _, _, _ in purity)
    r2.check(okr, f"{um.rel}:merge_dicts:recursive", "dict operands are not merged per key recursively in operand order (or the merge writes into its operands)", um.rel, md.lineno)
    for construct, ok, msg, rel_, line in purity:
        r2.check(ok, construct, msg, rel_, line)

    r3 = ctx.rule("C26.3", "path lookup: subscript only behind the dict test, inside except KeyError -> default", floor=3)
    gv = cm.func("get_context_value")
    cfg = CFG(gv)
    subs = [n for n in cfg.nodes if n.kind == "stmt" and isinstance(n.ast, ast.Assign) and isinstance(n.ast.value, ast.Subscript)]
    if not subs:
        raise AnalysisError("get_context_value: subscript not found", "get_context_value")
    for s in subs:
        base = src(s.ast.value.value)
        facts = facts_at(cfg, s)
        guarded = (f"isinstance({base}, dict)", True) in facts
        r3.check(guarded, f"{cm.rel}:get_context_value:subscript", f"`{src(s.ast)}` is not dominated by isinstance({base}, dict) in the same iteration: a non-mapping segment raises TypeError instead of yielding the default", cm.rel, s.lineno)
        tr = cm.parent.get(s.ast)
        intry = False
        while tr is not None:
            if isinstance(tr, ast.Try) and any(src(h.type) == "KeyError" and any(isinstance(b, ast.Return) and src(b.value) == "default" for b in h.body) for h in tr.handlers):
                intry = True
            tr = cm.parent.get(tr)
        r3.check(intry, f"{cm.rel}:get_context_value:KeyError", "a missing segment does not yield the default (no except KeyError: return default around the subscript)", cm.rel, s.lineno)
    nd = [n for n in cfg.nodes if n.kind == "stmt" and isinstance(n.ast, ast.Return) and src(n.ast.value) == "default" and any((f.startswith("isinstance(") and not t) for f, t in facts_at(cfg, n))]
    r3.check(bool(nd), f"{cm.rel}:get_context_value:non-dict-default", "a non-mapping segment does not return the default", cm.rel, gv.lineno)
    r3.check("var_path.split('.')" in src(gv), f"{cm.rel}:get_context_value:split", "the path is not split on dots", cm.rel, gv.lineno)
    gt = cm.func("get_context")
    ok = "scheduler.evaluate(parent_job.get_context(), parent_job=parent_job)" in src(gt) and "get_context_value(context, var_path, default)" in src(gt)
    r3.check(ok, f"{cm.rel}:get_context", "get_context does not evaluate the calling job's context and look up (path, default) in it", cm.rel, gt.lineno)

    # the value handed back may be the caller's `default`, which scheduler tasks receive unevaluated: it has to pass through scheduler.evaluate
    lookups = [c for c in ast.walk(gt) if isinstance(c, ast.Call) and call_name(c) == "get_context_value"]
    if not lookups:
        raise AnalysisError("get_context: get_context_value(...) call not found", "get_context")
    for c in lookups:
        par = cm.parent.get(c)
        evaluated = isinstance(par, ast.Call) and last_attr(par) == "evaluate" and c in par.args
        default_pre = any(isinstance(x, ast.Call) and last_attr(x) == "evaluate" and any(isinstance(a, ast.Name) and a.id == "default" for a in ast.walk(x)) for x in ast.walk(gt) if x is not par)
        r3.check(
            evaluated or default_pre,
            f"{cm.rel}:get_context:default-evaluated",
            "get_context returns get_context_value(context, path, default) as it is: scheduler tasks receive their arguments unevaluated, so a default that is a task call comes back as an "
            "unevaluated expression instead of its value",
            cm.rel,
            c.lineno,
        )

    r4 = ctx.rule("C26.4", "the override travels through the _context_override option; extend_run passes its context as the parent's override", floor=2)
    er = sm.func("Scheduler.extend_run")
    ok = any(call_name(c) == "Job" and kwarg(c, "options") is not None and src(kwarg(c, "options")) == "{'_context_override': context}" for c in calls_in(er))
    r4.check(ok, f"{sm.rel}:Scheduler.extend_run:context", "extend_run does not install its context argument as the stand-in parent job's override", sm.rel, er.lineno)
    sr = sm.func("subrun")
    ok = any(isinstance(n, ast.Dict) and "'context'" in [src(k) for k in n.keys] and src(n.values[[src(k) for k in n.keys].index("'context'")]) == "parent_job.get_context()" for n in ast.walk(sr))
    r4.check(ok, f"{sm.rel}:subrun:context", "subrun does not forward the calling job's context to the sub-scheduler", sm.rel, sr.lineno)
    ea = sm.func("Scheduler._evaluate_apply")
    ok = "JobEnv(parent_job, job.get_context())" in src(ea)
    r4.check(ok, f"{sm.rel}:Scheduler._evaluate_apply:default-args-context", "default arguments (e.g. get_context defaults) are not evaluated under the new job's context", sm.rel, ea.lineno)

    # update_context writes the merged override through self.options(...), a method PartialTask overrides to delegate to the wrapped task.
    # The previous override must be read through a method that is overridden by the same subclasses; reading the object's own
    # `_task_options_override` dict bypasses the delegation (a PartialTask's own dict is empty) and drops earlier overrides.
    tmod = repo.mod("redun/task.py")
    uc = tmod.func("Task.update_context")
    tcls = tmod.cls("Task")
    overriders = {c.name: {st.name for st in c.body if isinstance(st, FuncNode)} for _, c in repo.subclasses(tcls, strict=True)}
    writers = [c for c in calls_in(uc) if isinstance(c.func, ast.Attribute) and src(c.func.value) == "self" and c.func.attr == "options"]
    if not writers:
        raise AnalysisError("Task.update_context: self.options(...) not found", "Task.update_context")
    direct = [n for n in ast.walk(uc) if isinstance(n, ast.Attribute) and src(n) == "self._task_options_override" and isinstance(n.ctx, ast.Load)]
    readers = [c for c in calls_in(uc) if isinstance(c.func, ast.Attribute) and src(c.func.value) == "self" and c.func.attr in ("get_task_option", "get_task_options") and any("_context_override" in src(a) for a in c.args)]
    consistent = all(all(rd.func.attr in meths for rd in readers) for name, meths in overriders.items() if "options" in meths)
    r4.check(
        bool(readers) and not direct and consistent,
        f"{tmod.rel}:Task.update_context:previous-override",
        "update_context reads the previous context override from self._task_options_override (or through a method that subclasses overriding options() do not override): on a "
        "PartialTask, whose options live in the wrapped task, earlier update_context overrides are lost",
        tmod.rel,
        uc.lineno,
    )

    # ---- C26.5 -----------------------------------------------------------
    r5 = ctx.rule("C26.5", "an evaluation environment with its own context is its own de-duplication scope", floor=3)
    # (a) the pending-expression table is keyed by the parent job object
    keyed = [n for n in ast.walk(ea) if isinstance(n, ast.Subscript) and src(n.value) == "self._pending_expr"]
    if not keyed:
        raise AnalysisError("_evaluate_apply: self._pending_expr[...] not found", "Scheduler._evaluate_apply")
    r5.check(all(src(n.slice) == "parent_job" for n in keyed), f"{sm.rel}:Scheduler._evaluate_apply:_pending_expr-key", f"pending expressions are keyed by {sorted({src(n.slice) for n in keyed})}, not by the parent job / environment", sm.rel, ea.lineno)
    # (b) environment classes (JobEnv and every class it derives from, up to Job) compare by identity, or by everything that distinguishes them
    jm = sm
    envc = sm.cls("JobEnv")
    own_fields = set()
    for st in envc.body:
        if isinstance(st, FuncNode) and st.name == "__init__":
            for n in ast.walk(st):
                if isinstance(n, ast.Assign):
                    for tg in n.targets:
                        if isinstance(tg, ast.Attribute) and isinstance(tg.value, ast.Name) and tg.value.id == "self":
                            own_fields.add(tg.attr)
    if not own_fields:
        raise AnalysisError("JobEnv.__init__ assigns no fields", "JobEnv")
    for cm, cc in repo.mro(sm, envc):
        for st in cc.body:
            if isinstance(st, FuncNode) and st.name in ("__eq__", "__hash__"):
                read = {n.attr for n in ast.walk(st) if isinstance(n, ast.Attribute) and isinstance(n.value, ast.Name) and n.value.id == "self"}
                missing = sorted(own_fields - read) if cc is envc else sorted(own_fields)
                r5.check(
                    not missing,
                    f"{cm.rel}:{cc.name}.{st.name}:env-identity",
                    f"{cc.name}.{st.name} makes a JobEnv compare/hash without {missing}: two environments of the same parent job with different contexts become one key of "
                    "Scheduler._pending_expr, so equal expressions evaluated in them (e.g. a get_context(...) default argument of two sibling calls) share the first call's value",
                    cm.rel,
                    st.lineno,
                )
        for st in cc.body:
            if isinstance(st, ast.Assign) and any(src(t) in ("__eq__", "__hash__") for t in st.targets):
                r5.violation(f"{cm.rel}:{cc.name}.{src(st.targets[0])}:env-identity", f"{cc.name} aliases {src(st.targets[0])}: environments no longer compare by identity", cm.rel, st.lineno)
    r5.good(f"{sm.rel}:JobEnv:identity", f"fields {sorted(own_fields)}")
    decs = [d for cm, cc in repo.mro(sm, envc) for d in cc.decorator_list]
    r5.check(not any("dataclass" in src(d) or "total_ordering" in src(d) for d in decs), f"{sm.rel}:JobEnv:decorators", "Job/JobEnv is a dataclass (generated __eq__): environments no longer compare by identity", sm.rel, envc.lineno)

    # ---- C26.6 (the obligations of C05.4: the context hash a job is keyed and tagged by is the hash of its own context) ----
    from ..report import BorrowCtx
    from . import C05 as _borrowed_C05

    _borrowed_C05.run(BorrowCtx(ctx, {"C05.4": "C26.6"}))
