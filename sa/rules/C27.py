"""C27 -- task options follow the documented precedence (structural clauses).

Order of the sources in the option merge, where scheduler-imposed options are
created, monotone accumulation of exported option names, and evaluation of
option expressions before use.
"""

from __future__ import annotations

import ast

from ..cfg import CFG, facts_at
from ..core import AnalysisError, call_name, calls_in, kwarg, last_attr, src

EXPLANATION = (
    "C27.1 Job.get_raw_options merges, in this order, the task's definition/override options, the options exported by the parent job, the "
    "call-time options of the expression, and the scheduler-imposed job options (sources classified by resolved callee/attribute); Task.get_task_options "
    "puts overrides after base options; C27.2 scheduler-imposed options are created only in _evaluate_apply (cache downgrade, provenance inheritance) "
    "and passed as Job(options=...); the post-evaluation cache_scope=NONE override is guarded by `not recording_provenance()`; C27.3 export_options only "
    "ever grows by unions that include the parent's set and get_export_options filters on it; C27.4 _exec_job is reached only through the Promise.all "
    "that contains the chain assigning job.eval_options from the evaluated options."
)

SCHED = "redun/scheduler.py"


def run(ctx):
    repo = ctx.repo
    m = repo.mod(SCHED)
    tm = repo.mod("redun/task.py")

    r1 = ctx.rule("C27.1", "option sources are merged definition < exported-by-parent < call-time < scheduler-imposed", floor=2)
    gro = m.func("Job.get_raw_options")
    ret = next((n for n in ast.walk(gro) if isinstance(n, ast.Return)), None)
    order = []
    if ret is not None and isinstance(ret.value, ast.Dict) and all(k is None for k in ret.value.keys):
        for v in ret.value.values:
            t = src(v)
            if t == "self.task.get_task_options()":
                order.append("definition")
            elif t == "self.expr._options":
                order.append("call-time")
            elif t == "self.options":
                order.append("scheduler")
            elif isinstance(v, ast.Name):
                defs = [n for n in ast.walk(gro) if isinstance(n, ast.Assign) and src(n.targets[0]) == v.id]
                if defs and "self.parent_job.get_export_options()" in src(defs[0].value) and "if self.parent_job else {}" in src(defs[0].value):
                    order.append("exported")
                else:
                    order.append(f"?{t}")
            else:
                order.append(f"?{t}")
    r1.check(order == ["definition", "exported", "call-time", "scheduler"], f"{m.rel}:Job.get_raw_options:order", f"option sources are merged in the order {order}; later sources win, so the documented precedence requires definition, exported, call-time, scheduler", m.rel, gro.lineno)
    gto = tm.func("Task.get_task_options")
    ret = next((n for n in ast.walk(gto) if isinstance(n, ast.Return)), None)
    ok = ret is not None and isinstance(ret.value, ast.Dict) and [src(v) for v in ret.value.values] == ["self._task_options_base", "self._task_options_override"]
    r1.check(ok, f"{tm.rel}:Task.get_task_options:order", "run-time overrides do not come after definition-time options", tm.rel, gto.lineno)
    go = m.func("Job.get_options")
    ok = "self.eval_options = options" in src(go) and "self.get_raw_options()" in src(go) and any(isinstance(r, ast.Return) and src(r.value) == "self.eval_options" for r in ast.walk(go))
    r1.check(ok, f"{m.rel}:Job.get_options", "get_options does not return the evaluated options (falling back to raw options without expressions)", m.rel, go.lineno)

    r2 = ctx.rule("C27.2", "scheduler-imposed options are created in _evaluate_apply and guarded", floor=3)
    ea = m.func("Scheduler._evaluate_apply")
    t = src(ea)
    sites = [c for c in calls_in(ea) if call_name(c) == "Job"]
    ok = len(sites) == 1 and kwarg(sites[0], "options") is not None and src(kwarg(sites[0], "options")) == "job_options"
    r2.check(ok, f"{m.rel}:Scheduler._evaluate_apply:Job(options)", "the new job is not given the scheduler-imposed options", m.rel, ea.lineno)
    cfg = CFG(ea)
    for n in cfg.nodes:
        if n.kind == "stmt" and isinstance(n.ast, ast.Assign) and src(n.ast.targets[0]).startswith("job_options["):
            key = src(n.ast.targets[0])
            facts = facts_at(cfg, n)
            if "cache_scope" in key:
                ok = ("self._use_cache", False) in facts and src(n.ast.value) == "CacheScope.CSE"
                r2.check(ok, f"{m.rel}:Scheduler._evaluate_apply:{key}", "the cache downgrade is not `CSE when the run disables caching`", m.rel, n.lineno)
            elif "prov" in key:
                ok = ("parent_job.recording_provenance()", False) in facts and src(n.ast.value) == "False"
                r2.check(ok, f"{m.rel}:Scheduler._evaluate_apply:{key}", "provenance is not switched off exactly when the parent does not record it", m.rel, n.lineno)
            else:
                r2.violation(f"{m.rel}:Scheduler._evaluate_apply:{key}", f"unexpected scheduler-imposed option {key}", m.rel, n.lineno)
    ot = m.funcs.get("Scheduler._evaluate_apply.options_then")
    if ot is None:
        raise AnalysisError("options_then not found", "Scheduler._evaluate_apply")
    c2 = CFG(ot)
    ok = False
    for n in c2.nodes:
        if n.kind == "stmt" and isinstance(n.ast, ast.Assign) and "eval_options['cache_scope']" in src(n.ast.targets[0]):
            ok = ("job.recording_provenance()", False) in facts_at(c2, n) and src(n.ast.value) == "CacheScope.NONE"
    r2.check(ok, f"{m.rel}:Scheduler._evaluate_apply.options_then:cache_scope", "caching is not switched off exactly when provenance is not recorded", m.rel, ot.lineno)
    # no other writer of Job.options
    for mod in repo.modules.values():
        for n in ast.walk(mod.tree):
            if isinstance(n, ast.Assign):
                for tg in n.targets:
                    if isinstance(tg, (ast.Attribute, ast.Subscript)):
                        base = tg.value if isinstance(tg, ast.Subscript) else tg
                        if isinstance(base, ast.Attribute) and base.attr == "options" and isinstance(base.value, ast.Name) and base.value.id in ("job", "parent_job"):
                            r2.violation(f"{mod.rel}:{mod.enclosing_qual(n)}:{src(tg)}", "job-level options are written outside Job construction", mod.rel, n.lineno)

    r3 = ctx.rule("C27.3", "exported option names accumulate monotonically down the job tree", floor=3)
    ji = m.func("Job.__init__")
    tji = src(ji)
    ok = "self.export_options: set[str] = task._export_options | expr._export_options" in tji and "self.export_options |= parent_job.export_options" in tji
    r3.check(ok, f"{m.rel}:Job.__init__:export_options", "a job's exported option names are not task's | expression's | parent's", m.rel, ji.lineno)
    geo = m.func("Job.get_export_options")
    ok = "self.get_options().items()" in src(geo) and "if key in self.export_options" in src(geo)
    r3.check(ok, f"{m.rel}:Job.get_export_options", "exported options are not the job's evaluated options filtered by its exported names", m.rel, geo.lineno)
    writers = set()
    for mod in repo.modules.values():
        for n in ast.walk(mod.tree):
            if isinstance(n, (ast.Assign, ast.AugAssign, ast.AnnAssign)):
                tg = n.targets[0] if isinstance(n, ast.Assign) else n.target
                if isinstance(tg, ast.Attribute) and tg.attr == "export_options" and not (mod.rel == "redun/task.py"):
                    writers.add((mod.rel, mod.enclosing_qual(n)))
    r3.check(writers == {(SCHED, "Job.__init__")}, f"{m.rel}:Job.export_options:writers", f"Job.export_options is written in {sorted(writers)}", m.rel, 0)
    eo = tm.func("Task.export_options")
    r3.check("self._export_options | set(task_options_update.keys())" in src(eo), f"{tm.rel}:Task.export_options", "exporting options does not keep the previously exported names", tm.rel, eo.lineno)

    r4 = ctx.rule("C27.4", "options are evaluated before the job is executed", floor=2)
    ok = "self.evaluate(job.get_raw_options(), parent_job=parent_job).then(options_then)" in t.replace("\n", " ").replace("  ", "")
    ok = ok or ("job.get_raw_options()" in t and ".then(options_then)" in t)
    r4.check(ok, f"{m.rel}:Scheduler._evaluate_apply:evaluate-options", "raw options are not evaluated (expressions resolved) and handed to options_then", m.rel, ea.lineno)
    r4.check("job.eval_options = job_options" in src(ot), f"{m.rel}:Scheduler._evaluate_apply.options_then:assign", "the evaluated options are not stored on the job", m.rel, ot.lineno)
    ex = [c for c in calls_in(ea) if call_name(c) == "self._exec_job"]
    ok = len(ex) == 1 and m.enclosing_qual(ex[0]) == "Scheduler._evaluate_apply.args_then" and "Promise.all([args_promise, default_kwargs_promise]).then(args_then)" in t
    dk = [n for n in ast.walk(ea) if isinstance(n, (ast.Assign, ast.AnnAssign)) and src(n.targets[0] if isinstance(n, ast.Assign) else n.target) == "default_kwargs_promise"]
    ok = ok and len(dk) == 1 and ".then(options_then)" in src(dk[0].value)
    r4.check(ok, f"{m.rel}:Scheduler._evaluate_apply:exec-after-options", "_exec_job can be reached before the option chain (which assigns job.eval_options) has completed", m.rel, ea.lineno)
    callers = {(mod.rel, mod.enclosing_qual(c)) for mod, c in repo.all_calls(lambda c: last_attr(c) == "_exec_job")}
    r4.check(callers == {(SCHED, "Scheduler._evaluate_apply.args_then"), (SCHED, "Scheduler._check_jobs_pending_limits")}, f"{m.rel}:Scheduler._exec_job:callers", f"_exec_job is called from {sorted(callers)}", m.rel, 0)
