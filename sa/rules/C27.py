"""C27 -- task options follow the documented precedence (structural clauses).

Order of the sources in the option merge, where scheduler-imposed options are
created, monotone accumulation of exported option names, and evaluation of
option expressions before use.
"""

from __future__ import annotations

import ast

from ..cfg import CFG, facts_at
from ..core import AnalysisError, call_name, calls_in, kwarg, last_attr, src

EXPLANATION = (
    "C27.1 Job.get_raw_options merges, in this order, the task's definition/override options, the options exported by the parent job, the "
    "call-time options of the expression, and the scheduler-imposed job options (sources classified by resolved callee/attribute); Task.get_task_options "
    "puts overrides after base options; C27.2 scheduler-imposed options are created only in _evaluate_apply (cache downgrade, provenance inheritance) "
    "and passed as Job(options=...); the post-evaluation cache_scope=NONE override is guarded by `not recording_provenance()`; C27.3 export_options only "
    "ever grows by unions that include the parent's set and get_export_options filters on it; C27.4 _exec_job is reached only through the Promise.all "
    "that contains the chain assigning job.eval_options from the evaluated options. C27.5 every `self.__class__(...)` clone inside Task forwards all option-carrying constructor arguments (task_options_base, task_options_override, export_options, hash_includes, identity fields)."
)

SCHED = "redun/scheduler.py"


def _export_sources(fn):
    """Union-set abstract interpretation of Job.__init__ for self.export_options: returns the final states
    (parent_job truth on the path: True/False/None, atoms unioned into the set, whether a non-union operation was applied)."""
    ATOMS = ("task._export_options", "expr._export_options", "parent_job.export_options")

    def atoms(e, env):
        """-> (atoms, filtered) of a set-valued expression."""
        if isinstance(e, ast.BinOp):
            a1, f1 = atoms(e.left, env)
            a2, f2 = atoms(e.right, env)
            if isinstance(e.op, ast.BitOr):
                return a1 | a2, f1 or f2
            return a1 | a2, True
        t = src(e)
        if t in ATOMS:
            return {t}, False
        if t == "self.export_options":
            return set(env["self"][0]), env["self"][1]
        if isinstance(e, ast.Name) and e.id in env:
            return set(env[e.id][0]), env[e.id][1]
        if isinstance(e, ast.Call):
            cn = call_name(e) or ""
            if cn in ("set", "frozenset") and len(e.args) <= 1 and not e.keywords:
                return atoms(e.args[0], env) if e.args else (set(), False)
            if isinstance(e.func, ast.Attribute) and e.func.attr in ("union", "copy"):
                a, f = atoms(e.func.value, env)
                for x in e.args:
                    a2, f2 = atoms(x, env)
                    a |= a2
                    f = f or f2
                return a, f
        if isinstance(e, ast.Constant) and e.value is None:
            return set(), False
        return set(), True  # unknown producer: treated as not including anything

    def parent_test(t):
        """truth value of `parent_job` implied by test t being true / false: (when_true, when_false)."""
        if isinstance(t, ast.UnaryOp) and isinstance(t.op, ast.Not):
            a, b = parent_test(t.operand)
            return b, a
        x = src(t)
        if x in ("parent_job", "parent_job is not None"):
            return True, False
        if x == "parent_job is None":
            return False, True
        if isinstance(t, ast.BoolOp) and isinstance(t.op, ast.And):
            # all conjuncts true on the true arm; nothing known on the false arm
            wt = None
            for v in t.values:
                a, _ = parent_test(v)
                if a is not None:
                    wt = a
            return wt, None
        if isinstance(t, ast.BoolOp) and isinstance(t.op, ast.Or):
            wf = None
            for v in t.values:
                _, b = parent_test(v)
                if b is not None:
                    wf = b
            return None, wf
        return None, None

    def merge_truth(old, new):
        return old if new is None else new

    def alias_of(e, env):
        """the object whose set `e` denotes without copying it (an attribute of another object, or a local that is such an alias), else None"""
        t = src(e)
        if t in ATOMS:
            return t
        if isinstance(e, ast.Name):
            return env.get("__alias__", {}).get(e.id)
        return None

    def assign(env, name, val, state_truth):
        outs = []
        if isinstance(val, ast.IfExp):
            wt, wf = parent_test(val.test)
            for arm, tr in ((val.body, wt), (val.orelse, wf)):
                if tr is not None and state_truth is not None and tr != state_truth:
                    continue
                e2 = dict(env)
                e2[name] = atoms(arm, env)
                e2["__alias__"] = {**env.get("__alias__", {}), name: alias_of(arm, env)}
                outs.append((merge_truth(state_truth, tr), e2))
            return outs
        e2 = dict(env)
        e2[name] = atoms(val, env)
        e2["__alias__"] = {**env.get("__alias__", {}), name: alias_of(val, env)}
        return [(state_truth, e2)]

    def block(stmts, states):
        for st in stmts:
            nxt = []
            for truth, env in states:
                if isinstance(st, (ast.Assign, ast.AnnAssign)) and getattr(st, "value", None) is not None:
                    tg = st.targets[0] if isinstance(st, ast.Assign) else st.target
                    if src(tg) == "self.export_options":
                        nxt += assign(env, "self", st.value, truth)
                        continue
                    if isinstance(tg, ast.Name) and (atoms(st.value, env)[0] or src(st.value) in ("set()",)):
                        nxt += assign(env, tg.id, st.value, truth)
                        continue
                    nxt.append((truth, env))
                elif isinstance(st, ast.AugAssign) and src(st.target) == "self.export_options":
                    a, f = atoms(st.value, env)
                    e2 = dict(env)
                    if env.get("__alias__", {}).get("self"):
                        e2["__mutates_alias__"] = (env["__alias__"]["self"], src(st), st.lineno)
                    e2["self"] = (env["self"][0] | a, env["self"][1] or f or not isinstance(st.op, ast.BitOr))
                    nxt.append((truth, e2))
                elif isinstance(st, ast.Expr) and isinstance(st.value, ast.Call) and src(st.value.func) in ("self.export_options.update", "self.export_options.__ior__", "self.export_options.add"):
                    e2 = dict(env)
                    if env.get("__alias__", {}).get("self"):
                        e2["__mutates_alias__"] = (env["__alias__"]["self"], src(st), st.lineno)
                    a, f = set(env["self"][0]), env["self"][1]
                    for x in st.value.args:
                        a2, f2 = atoms(x, env)
                        a |= a2
                        f = f or f2
                    e2["self"] = (a, f)
                    nxt.append((truth, e2))
                elif isinstance(st, ast.Expr) and isinstance(st.value, ast.Call) and src(st.value.func).startswith("self.export_options."):
                    e2 = dict(env)
                    e2["self"] = (env["self"][0], True)
                    nxt.append((truth, e2))
                elif isinstance(st, ast.If):
                    wt, wf = parent_test(st.test)
                    for arm, tr in ((st.body, wt), (st.orelse, wf)):
                        if tr is not None and truth is not None and tr != truth:
                            continue
                        nxt += block(arm, [(merge_truth(truth, tr), dict(env))])
                elif isinstance(st, (ast.With, ast.Try, ast.For, ast.While)) and "export_options" in src(st):
                    raise AnalysisError("Job.__init__: export_options built inside a loop/try/with (unknown idiom)", "Job.__init__")
                else:
                    nxt.append((truth, env))
            states = nxt
        return states

    finals = block(fn.body, [(None, {"self": (set(), False)})])
    out = []
    seen = set()
    for truth, env in finals:
        a, f = env["self"]
        key = (truth, frozenset(a), f)
        if key not in seen and (a or f):
            seen.add(key)
            out.append((truth, set(a), f))
    _export_sources.alias_mutations = sorted({env["__mutates_alias__"] for _, env in finals if "__mutates_alias__" in env})
    _export_sources.final_aliases = sorted({env.get("__alias__", {}).get("self") for _, env in finals if env.get("__alias__", {}).get("self")})
    return out


def run(ctx):
    repo = ctx.repo
    m = repo.mod(SCHED)
    tm = repo.mod("redun/task.py")

    r1 = ctx.rule("C27.1", "option sources are merged definition < exported-by-parent < call-time < scheduler-imposed", floor=2)
    gro = m.func("Job.get_raw_options")
    ret = next((n for n in ast.walk(gro) if isinstance(n, ast.Return)), None)
    order = []
    if ret is not None and isinstance(ret.value, ast.Dict) and all(k is None for k in ret.value.keys):
        for v in ret.value.values:
            t = src(v)
            if t == "self.task.get_task_options()":
                order.append("definition")
            elif t == "self.expr._options":
                order.append("call-time")
            elif t == "self.options":
                order.append("scheduler")
            elif isinstance(v, ast.Name):
                defs = [n for n in ast.walk(gro) if isinstance(n, ast.Assign) and src(n.targets[0]) == v.id]
                one_expr = bool(defs) and "self.parent_job.get_export_options()" in src(defs[0].value) and "if self.parent_job else {}" in src(defs[0].value)
                # or: `x = {}` followed by `if self.parent_job: x = self.parent_job.get_export_options()`
                two_step = (
                    len(defs) == 2
                    and sorted(src(d.value) for d in defs) == sorted(["{}", "self.parent_job.get_export_options()"])
                    and any(
                        isinstance(i, ast.If) and src(i.test) == "self.parent_job" and any(d in i.body for d in defs if src(d.value) != "{}")
                        for i in ast.walk(gro)
                    )
                )
                if one_expr or two_step:
                    order.append("exported")
                else:
                    order.append(f"?{t}")
            else:
                order.append(f"?{t}")
    r1.check(order == ["definition", "exported", "call-time", "scheduler"], f"{m.rel}:Job.get_raw_options:order", f"option sources are merged in the order {order}; later sources win, so the documented precedence requires definition, exported, call-time, scheduler", m.rel, gro.lineno)
    gto = tm.func("Task.get_task_options")
    ret = next((n for n in ast.walk(gto) if isinstance(n, ast.Return)), None)
    ok = ret is not None and isinstance(ret.value, ast.Dict) and [src(v) for v in ret.value.values] == ["self._task_options_base", "self._task_options_override"]
    r1.check(ok, f"{tm.rel}:Task.get_task_options:order", "run-time overrides do not come after definition-time options", tm.rel, gto.lineno)
    go = m.func("Job.get_options")
    ok = "self.eval_options = options" in src(go) and "self.get_raw_options()" in src(go) and any(isinstance(r, ast.Return) and src(r.value) == "self.eval_options" for r in ast.walk(go))
    r1.check(ok, f"{m.rel}:Job.get_options", "get_options does not return the evaluated options (falling back to raw options without expressions)", m.rel, go.lineno)

    r2 = ctx.rule("C27.2", "scheduler-imposed options are created in _evaluate_apply and guarded", floor=3)
    ea = m.func("Scheduler._evaluate_apply")
    t = src(ea)
    sites = [c for c in calls_in(ea) if call_name(c) == "Job"]
    ok = len(sites) == 1 and kwarg(sites[0], "options") is not None and src(kwarg(sites[0], "options")) == "job_options"
    r2.check(ok, f"{m.rel}:Scheduler._evaluate_apply:Job(options)", "the new job is not given the scheduler-imposed options", m.rel, ea.lineno)
    cfg = CFG(ea)
    for n in cfg.nodes:
        if n.kind == "stmt" and isinstance(n.ast, ast.Assign) and src(n.ast.targets[0]).startswith("job_options["):
            key = src(n.ast.targets[0])
            facts = facts_at(cfg, n)
            # conditions under which the option is imposed, beyond those under which the job is created at all
            extra = facts - (facts_at(cfg, cfg.node_of(sites[0])) if sites else set())
            if "cache_scope" in key:
                ok = ("self._use_cache", False) in facts and src(n.ast.value) == "CacheScope.CSE"
                r2.check(ok, f"{m.rel}:Scheduler._evaluate_apply:{key}", "the cache downgrade is not `CSE when the run disables caching`", m.rel, n.lineno)
                narrowed = sorted(f"{'' if t_ else 'not '}{f}" for f, t_ in extra if (f, t_) != ("self._use_cache", False))
                r2.check(
                    not narrowed,
                    f"{m.rel}:Scheduler._evaluate_apply:{key}:unconditional",
                    f"the scheduler-imposed cache_scope is applied only when also {narrowed}: for the other jobs a definition-time or call-time option (e.g. .options(cache=True) on a "
                    "cache_scope=NONE task) beats run(cache=False), and the job is served from the backend cache although the scheduler disabled caching",
                    m.rel,
                    n.lineno,
                )
            elif "prov" in key:
                ok = ("parent_job.recording_provenance()", False) in facts and src(n.ast.value) == "False"
                r2.check(ok, f"{m.rel}:Scheduler._evaluate_apply:{key}", "provenance is not switched off exactly when the parent does not record it", m.rel, n.lineno)
                narrowed = sorted(f"{'' if t_ else 'not '}{f}" for f, t_ in extra if (f, t_) not in (("parent_job.recording_provenance()", False), ("parent_job", True)))
                r2.check(
                    not narrowed,
                    f"{m.rel}:Scheduler._evaluate_apply:{key}:unconditional",
                    f"the scheduler-imposed prov=False is applied only when also {narrowed}: other jobs under a parent that records no provenance would record their own",
                    m.rel,
                    n.lineno,
                )
            else:
                r2.violation(f"{m.rel}:Scheduler._evaluate_apply:{key}", f"unexpected scheduler-imposed option {key}", m.rel, n.lineno)
    ot = m.funcs.get("Scheduler._evaluate_apply.options_then")
    if ot is None:
        raise AnalysisError("options_then not found", "Scheduler._evaluate_apply")
    c2 = CFG(ot)
    ok = False
    for n in c2.nodes:
        if n.kind == "stmt" and isinstance(n.ast, ast.Assign) and "eval_options['cache_scope']" in src(n.ast.targets[0]):
            ok = ("job.recording_provenance()", False) in facts_at(c2, n) and src(n.ast.value) == "CacheScope.NONE"
    r2.check(ok, f"{m.rel}:Scheduler._evaluate_apply.options_then:cache_scope", "caching is not switched off exactly when provenance is not recorded", m.rel, ot.lineno)
    # no other writer of Job.options
    for mod in repo.modules.values():
        for n in ast.walk(mod.tree):
            if isinstance(n, ast.Assign):
                for tg in n.targets:
                    if isinstance(tg, (ast.Attribute, ast.Subscript)):
                        base = tg.value if isinstance(tg, ast.Subscript) else tg
                        if isinstance(base, ast.Attribute) and base.attr == "options" and isinstance(base.value, ast.Name) and base.value.id in ("job", "parent_job"):
                            r2.violation(f"{mod.rel}:{mod.enclosing_qual(n)}:{src(tg)}", "job-level options are written outside Job construction", mod.rel, n.lineno)

    r3 = ctx.rule("C27.3", "exported option names accumulate monotonically down the job tree", floor=3)
    ji = m.func("Job.__init__")
    finals = _export_sources(ji)
    base = {"task._export_options", "expr._export_options"}
    if not finals:
        raise AnalysisError("Job.__init__: no assignment to self.export_options found", "Job.__init__")
    for parent_truth, sources, filtered in finals:
        need = set(base)
        if parent_truth is not False:
            need.add("parent_job.export_options")
        missing = sorted(need - sources)
        r3.check(
            not missing and not filtered,
            f"{m.rel}:Job.__init__:export_options",
            f"on the path where parent_job is {'absent' if parent_truth is False else 'present'}, the job's exported option names are built from {sorted(sources)}"
            f"{' through a non-union operation' if filtered else ''}; missing {missing}: names exported by an ancestor (or by the task/expression) stop reaching descendants",
            m.rel,
            ji.lineno,
        )
    for owner, stmt_txt, line in getattr(_export_sources, "alias_mutations", []):
        r3.violation(
            f"{m.rel}:Job.__init__:export_options:aliased-mutation",
            f"`{stmt_txt}` grows the set in place while self.export_options is the very object `{owner}` (assigned without a copy): the names this job exports are added to its "
            "parent's (or its task's) set as well, so they reach siblings and ancestors, not only descendants",
            m.rel,
            line,
        )
    for owner in getattr(_export_sources, "final_aliases", []):
        r3.violation(
            f"{m.rel}:Job.__init__:export_options:shared-object",
            f"a job's export_options is the same set object as `{owner}`: later growth of either one changes the other (exported names no longer accumulate strictly downwards)",
            m.rel,
            ji.lineno,
        )
    geo = m.func("Job.get_export_options")
    ok = "self.get_options().items()" in src(geo) and "if key in self.export_options" in src(geo)
    r3.check(ok, f"{m.rel}:Job.get_export_options", "exported options are not the job's evaluated options filtered by its exported names", m.rel, geo.lineno)
    writers = set()
    for mod in repo.modules.values():
        for n in ast.walk(mod.tree):
            if isinstance(n, (ast.Assign, ast.AugAssign, ast.AnnAssign)):
                tg = n.targets[0] if isinstance(n, ast.Assign) else n.target
                if isinstance(tg, ast.Attribute) and tg.attr == "export_options" and not (mod.rel == "redun/task.py"):
                    writers.add((mod.rel, mod.enclosing_qual(n)))
    r3.check(writers == {(SCHED, "Job.__init__")}, f"{m.rel}:Job.export_options:writers", f"Job.export_options is written in {sorted(writers)}", m.rel, 0)
    eo = tm.func("Task.export_options")
    r3.check("self._export_options | set(task_options_update.keys())" in src(eo), f"{tm.rel}:Task.export_options", "exporting options does not keep the previously exported names", tm.rel, eo.lineno)

    r4 = ctx.rule("C27.4", "options are evaluated before the job is executed", floor=2)
    ok = "self.evaluate(job.get_raw_options(), parent_job=parent_job).then(options_then)" in t.replace("\n", " ").replace("  ", "")
    ok = ok or ("job.get_raw_options()" in t and ".then(options_then)" in t)
    r4.check(ok, f"{m.rel}:Scheduler._evaluate_apply:evaluate-options", "raw options are not evaluated (expressions resolved) and handed to options_then", m.rel, ea.lineno)
    p0 = ot.args.args[0].arg if ot.args.args else None
    stores = any(isinstance(a, ast.Assign) and any(src(t_) == "job.eval_options" for t_ in a.targets) and isinstance(a.value, ast.Name) and a.value.id == p0 for a in ast.walk(ot))
    r4.check(stores, f"{m.rel}:Scheduler._evaluate_apply.options_then:assign", "the evaluated options are not stored on the job", m.rel, ot.lineno)
    ex = [c for c in calls_in(ea) if call_name(c) == "self._exec_job"]
    ok = len(ex) == 1 and m.enclosing_qual(ex[0]) == "Scheduler._evaluate_apply.args_then" and "Promise.all([args_promise, default_kwargs_promise]).then(args_then)" in t
    dk = [n for n in ast.walk(ea) if isinstance(n, (ast.Assign, ast.AnnAssign)) and src(n.targets[0] if isinstance(n, ast.Assign) else n.target) == "default_kwargs_promise"]
    ok = ok and len(dk) == 1 and ".then(options_then)" in src(dk[0].value)
    r4.check(ok, f"{m.rel}:Scheduler._evaluate_apply:exec-after-options", "_exec_job can be reached before the option chain (which assigns job.eval_options) has completed", m.rel, ea.lineno)
    callers = {(mod.rel, mod.enclosing_qual(c)) for mod, c in repo.all_calls(lambda c: last_attr(c) == "_exec_job")}
    r4.check(callers == {(SCHED, "Scheduler._evaluate_apply.args_then"), (SCHED, "Scheduler._check_jobs_pending_limits")}, f"{m.rel}:Scheduler._exec_job:callers", f"_exec_job is called from {sorted(callers)}", m.rel, 0)

    # ---- C27.5 task clones carry all option state ------------------------------------------
    r5 = ctx.rule("C27.5", "every method that clones a Task forwards all option-carrying constructor arguments", floor=2)
    init = tm.func("Task.__init__")
    ctor = [a.arg for a in init.args.args[2:]] + [a.arg for a in init.args.kwonlyargs]  # after self, func
    state = [p for p in ctor if p in ("task_options_base", "task_options_override", "export_options", "hash_includes", "name", "namespace", "version", "compat", "script", "source")]
    if not {"task_options_base", "task_options_override", "export_options"} <= set(state):
        raise AnalysisError(f"Task.__init__ parameters {ctor} no longer include the option fields", "Task.__init__")
    nclone = 0
    for q, fn in tm.funcs.items():
        if not q.startswith("Task.") or q.count(".") != 1:
            continue
        for c in calls_in(fn):
            if src(c.func) in ("self.__class__", "type(self)"):
                nclone += 1
                kws = {k.arg for k in c.keywords}
                missing = [p for p in state if p not in kws]
                r5.check(
                    not missing,
                    f"{tm.rel}:{q}:clone",
                    f"{q} clones the task with self.__class__(...) but does not forward {missing}: the clone silently falls back to the constructor default "
                    "(e.g. exported option names set by an earlier .export_options() are lost when .options() is chained after it, so the options are applied to this job but no longer inherited by its children)",
                    tm.rel,
                    c.lineno,
                )
    if nclone < 2:
        raise AnalysisError(f"only {nclone} Task clone sites found", "Task")
    # containers the constructor grows in place (`self._x.add(...)`) must not be shared between a task and its clone
    grown = {}
    for n in ast.walk(tm.cls("Task")):
        if isinstance(n, ast.Call) and isinstance(n.func, ast.Attribute) and n.func.attr in ("add", "update", "append", "extend") and isinstance(n.func.value, ast.Attribute) and src(n.func.value.value) == "self":
            fld = n.func.value.attr
            # which constructor parameter initialises that field?
            for a in ast.walk(init):
                tg = a.target if isinstance(a, ast.AnnAssign) else (a.targets[0] if isinstance(a, ast.Assign) else None)
                if tg is not None and src(tg) == f"self.{fld}" and a.value is not None:
                    for x in ast.walk(a.value):
                        if isinstance(x, ast.Name) and x.id in ctor:
                            grown[x.id] = fld
    for q, fn in tm.funcs.items():
        if not q.startswith("Task.") or q.count(".") != 1:
            continue
        for c in calls_in(fn):
            if src(c.func) in ("self.__class__", "type(self)"):
                for kw in c.keywords:
                    if kw.arg in grown:
                        shared = src(kw.value) == f"self.{grown[kw.arg]}"
                        r5.check(
                            not shared,
                            f"{tm.rel}:{q}:clone-shares-{kw.arg}",
                            f"{q} passes its own `self.{grown[kw.arg]}` object to the clone, and Task.__init__ grows that container in place: building the clone changes the original task "
                            "(and every expression already created from it, whose cached hash then no longer matches its fields)",
                            tm.rel,
                            c.lineno,
                        )

    # ---- C27.6 stored option keys and exported names agree ----------------------------------
    # Job.get_export_options filters the *stored* option keys by the exported name set.  Task._validate rewrites legacy keys (cache -> cache_scope);
    # it is run by every constructor path, so it is the one place where the exported name of a rewritten key can be kept in step.
    r6 = ctx.rule("C27.6", "an option key renamed by Task._validate is renamed in the exported-name set by Task._validate as well", floor=1)
    val = tm.func("Task._validate")
    vcfg = CFG(val)
    renames = []
    for n in ast.walk(val):
        if isinstance(n, ast.If) and isinstance(n.test, ast.Compare) and len(n.test.ops) == 1 and isinstance(n.test.ops[0], ast.In) and isinstance(n.test.left, ast.Constant) and isinstance(n.test.left.value, str):
            old = n.test.left.value
            d = src(n.test.comparators[0])
            removed = any(isinstance(c, ast.Call) and src(c.func) == f"{d}.pop" and c.args and isinstance(c.args[0], ast.Constant) and c.args[0].value == old for b in n.body for c in ast.walk(b)) or any(
                isinstance(x, ast.Delete) and any(src(t) == f"{d}[{old!r}]" for t in x.targets) for b in n.body for x in ast.walk(b)
            )
            news = [t.slice.value for b in n.body for a in ast.walk(b) if isinstance(a, ast.Assign) for t in a.targets if isinstance(t, ast.Subscript) and src(t.value) == d and isinstance(t.slice, ast.Constant) and t.slice.value != old]
            if removed and news:
                renames.append((old, news[0], n.lineno))
    if not renames:
        raise AnalysisError("Task._validate: the legacy-option rewrite (cache -> cache_scope) was not found", "Task._validate")
    for old, new, line in renames:
        ok = False
        for c in calls_in(val):
            if src(c.func) == "self._export_options.add" and c.args and isinstance(c.args[0], ast.Constant) and c.args[0].value == new:
                facts = facts_at(vcfg, vcfg.node_of(c))
                if (f"{old!r} in self._export_options", True) in facts:
                    ok = True
        r6.check(
            ok,
            f"{tm.rel}:Task._validate:export-name:{old}->{new}",
            f"Task._validate stores option `{old}` under the key `{new}` but leaves the exported name `{old}` as it is: Job.get_export_options keeps only stored keys that are in the exported-name "
            f"set, so `@task(export_options={{'{old}': ...}})` (and Task(..., export_options={{'{old}'}})) exports nothing to child jobs, while .export_options({old}=...) -- which adds the synonym itself -- does",
            tm.rel,
            line,
        )

    # ---- C27.7 per-job decisions read the job's effective options ---------------------------------
    # Job.get_raw_options is the one place where the option layers are merged.  Code that decides something for a *job* from
    # `job.task.get_task_option(s)` or `job.expr._options` sees only the definition-time and call-time layers: options exported by an ancestor
    # job and options imposed by the scheduler are invisible to it (e.g. array grouping that treats jobs with different inherited memory as equal).
    r7 = ctx.rule("C27.7", "outside Job's option machinery nothing reads a job's options from its task or expression directly", floor=1)
    BYPASS_OK = {
        ("redun/scheduler.py", "Job.get_raw_options"): "the merge itself",
        ("redun/scheduler.py", "Scheduler._record_job_tags"): "task tags are a definition-time attribute of the task value, recorded per task",
    }
    nby = 0
    for mod in repo.modules.values():
        if mod.rel.startswith("redun/tests"):
            continue
        for n in ast.walk(mod.tree):
            hit = None
            if isinstance(n, ast.Attribute) and n.attr == "_options" and isinstance(n.value, ast.Attribute) and n.value.attr == "expr":
                hit = src(n.value.value)
            elif isinstance(n, ast.Call) and isinstance(n.func, ast.Attribute) and n.func.attr in ("get_task_option", "get_task_options") and isinstance(n.func.value, ast.Attribute) and n.func.value.attr == "task":
                hit = src(n.func.value.value)
            if hit is None or not (hit == "self" and (mod.enclosing_class(n) is not None and mod.enclosing_class(n).name == "Job") or "job" in hit.lower()):
                continue
            nby += 1
            q = mod.enclosing_qual(n)
            ok = (mod.rel, q) in BYPASS_OK
            r7.check(
                ok,
                f"{mod.rel}:{q}:option-bypass:{src(n)[:40]}",
                f"{q} reads `{src(n)[:60]}` for a job instead of job.get_options()/get_option(): options the job inherits from an exporting ancestor (or that the scheduler imposes) are ignored there, so the "
                "decision taken for the job disagrees with the options the job actually runs under",
                mod.rel,
                n.lineno,
            )
    if nby < 2:
        raise AnalysisError(f"only {nby} direct option reads found (Job.get_raw_options itself should be among them)", "Job.get_raw_options")

    # ---- C27.8 subclasses with another constructor override every cloning method ------------------
    # Task.options()/export_options()/... clone with self.__class__(func, name=..., namespace=..., ...).  A subclass whose __init__ takes other
    # parameters (PartialTask(task, args, kwargs)) must override each of them, otherwise the call raises TypeError instead of returning the clone.
    r8 = ctx.rule("C27.8", "a Task subclass with an incompatible constructor overrides every method that clones through self.__class__(...)", floor=2)
    base = tm.cls("Task")
    clone_methods = {}
    for st in base.body:
        if isinstance(st, ast.FunctionDef):
            for c in calls_in(st):
                if src(c.func) in ("self.__class__", "type(self)"):
                    clone_methods[st.name] = {k.arg for k in c.keywords if k.arg}
    if len(clone_methods) < 2:
        raise AnalysisError(f"Task clone methods found: {sorted(clone_methods)}", "Task")
    for cm8, c8 in repo.subclasses(base):
        if c8 is base:
            continue
        init8 = next((st for st in c8.body if isinstance(st, ast.FunctionDef) and st.name == "__init__"), None)
        if init8 is None or init8.args.kwarg is not None:
            continue
        accepted = {a.arg for a in init8.args.args + init8.args.kwonlyargs}
        own = {st.name for st in c8.body if isinstance(st, ast.FunctionDef)}
        for mname, kws in sorted(clone_methods.items()):
            missing = sorted(kws - accepted)
            if not missing:
                continue
            r8.check(
                mname in own,
                f"{cm8.rel}:{c8.name}.{mname}:override",
                f"{c8.name}.__init__ does not accept {missing[:3]}..., which Task.{mname}() passes to self.__class__(...), and {c8.name} does not override {mname}(): calling it raises TypeError "
                f"(`{c8.name}.__init__() got an unexpected keyword argument`), so options cannot be set/exported on such a task at all",
                cm8.rel,
                c8.lineno,
            )
