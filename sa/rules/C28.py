"""C28 -- dry runs execute nothing (first clause only).

Under dry-run no job reaches an executor, no resources are consumed, no handle
is rolled back, nothing is post-processed or cached, and the run reports a
pending workflow as DryRunResult.  The prediction clauses (value equality,
"would execute") are not decided.
"""

from __future__ import annotations

import ast

from ..cfg import CFG, facts_at
from ..core import AnalysisError, FuncNode, call_name, calls_in, kwarg, last_attr, src
from ..lifecycle import SCHED, Lifecycle, describe_trace

EXPLANATION = (
    "C28.1 lifecycle interpretation with sched._dryrun=True: no trace contains a submit hand-off, a consume, or reaches the non-cached arm of the done "
    "handler (its assert is checked as a belief and the arm's unreachability independently); in the exec handler both executor.submit* calls, "
    "_perform_rollbacks, _consume_resources and the store into _pending_jobs are dominated by the not-dry-run outcome; C28.2 who-may-call "
    "Executor.submit/submit_script: the scheduler's exec handler and executor-to-executor delegation only; C28.3 subrun forwards dryrun in run_config, "
    "the event loop stops on an empty queue under dry-run, run() maps a pending result to DryRunResult, handle advance is skipped in _postprocess_result. C28.4 (necessary condition of the prediction clause) Scheduler methods that query the backend cache or validate cached values read the dry-run flag only to log; no backend function takes a dryrun parameter."
    ' C28.5 no reject_job site of the hand-off is dominated by the false edge of `self._dryrun` (outside exception handlers): a job the real run fails before any task runs must fail the dry run too, otherwise `stops early => a real run executes a task` is false.'
)

SUBMIT_ALLOWED = {
    ("redun/scheduler.py", "Scheduler._exec_job_main_thread"): "the scheduler's hand-off (dry-run guarded, C28.1)",
    ("redun/executors/launch.py", "launch_script"): "stand-alone launcher without a scheduler",
}


def run(ctx):
    repo = ctx.repo
    m = repo.mod(SCHED)
    lc = Lifecycle(repo)
    ex = m.func(lc.EXEC)
    cfg = CFG(ex)
    jv = ex.args.args[1].arg

    r1 = ctx.rule("C28.1", "under dry-run nothing is submitted, consumed, rolled back, post-processed or cached", floor=6)
    results = lc.explore()
    ctx.paths_enumerated = len(results)
    ndry = 0
    bad_seen = set()
    for kind, trace in results:
        if not trace[0][2].get("sched._dryrun"):
            continue
        ndry += 1
        for hkey, ps, st, notes in trace:
            for e in ps.events:
                what = None
                if e == ("cont", "submit"):
                    what = "a job is handed to an executor"
                elif e[0] == "consume":
                    what = "resources are consumed"
                elif e[0] == "call" and e[1] in ("self._postprocess_result", "self.set_cache", "self._perform_rollbacks"):
                    what = f"{e[1]} runs"
                if what and (hkey, what) not in bad_seen:
                    bad_seen.add((hkey, what))
                    r1.violation(f"{m.rel}:{lc.handlers[hkey].qual}:dryrun:{what}", f"under dry-run {what} on a feasible lifecycle path", m.rel, lc.handlers[hkey].fn.lineno, describe_trace(trace))
        if kind == "assert-fails" and trace[-1][3] and trace[-1][3][-1][1] == "sched._dryrun":
            key = (trace[-1][0], "assert")
            if key not in bad_seen:
                bad_seen.add(key)
                r1.violation(f"{m.rel}:{lc.handlers[trace[-1][0]].qual}:dryrun:assert", "a dry-run lifecycle path reaches `assert not self._dryrun`", m.rel, 0, describe_trace(trace))
    if ndry < 5:
        raise AnalysisError(f"only {ndry} dry-run traces", "lifecycle")
    r1.good(f"{m.rel}:lifecycle:dryrun-traces", f"{ndry} dry-run traces without execution effects")
    guarded = []
    for c in calls_in(ex, shallow=True):
        d = call_name(c) or ""
        if last_attr(c) in ("submit", "submit_script") and c.args and src(c.args[0]) == jv:
            guarded.append((c, f"executor.{last_attr(c)}"))
        elif d in ("self._perform_rollbacks", "self._consume_resources"):
            guarded.append((c, d))
    for n in cfg.nodes:
        if n.kind == "stmt" and isinstance(n.ast, ast.Assign) and any(isinstance(t, ast.Subscript) and src(t.value) == "self._pending_jobs" for t in n.ast.targets):
            guarded.append((n.ast, "store into _pending_jobs"))
    if len(guarded) < 5:
        raise AnalysisError("exec handler: guarded effects not found", lc.EXEC)
    for node_ast, name in guarded:
        node = cfg.node_of(node_ast)
        facts = facts_at(cfg, node)
        r1.check(("self._dryrun", False) in facts, f"{m.rel}:{lc.EXEC}:{name}", f"{name} is not dominated by the not-dry-run outcome of a `self._dryrun` test", m.rel, node.lineno)
    dn = m.func(lc.DONE)
    c2 = CFG(dn)
    for c in calls_in(dn, shallow=True):
        if call_name(c) in ("self._postprocess_result", "self.set_cache"):
            facts = facts_at(c2, c2.node_of(c))
            r1.check((f"{dn.args.args[1].arg}.was_cached", False) in facts, f"{m.rel}:{lc.DONE}:{call_name(c)}", f"{call_name(c)} is reachable for a cached job", m.rel, c.lineno)
    belief = any(isinstance(n, ast.Assert) and src(n.test) == "not self._dryrun" for n in ast.walk(dn))
    r1.check(belief, f"{m.rel}:{lc.DONE}:belief", "the documented belief `assert not self._dryrun` on the non-cached arm was removed", m.rel, dn.lineno)

    r2 = ctx.rule("C28.2", "only the scheduler and delegating executors call Executor.submit/submit_script", floor=4)
    base = repo.mod("redun/executors/base.py").cls("Executor")
    for mod, c in repo.all_calls(lambda c: last_attr(c) in ("submit", "submit_script")):
        recv = src(c.func.value) if isinstance(c.func, ast.Attribute) else ""
        # concurrent.futures pools and boto clients are not redun executors: resolve by receiver
        if any(k in recv for k in ("_thread_executor", "_process_executor", "pool", "_executor_pool")) or recv in ("executor",) and mod.rel == "redun/executors/local.py":
            continue
        if mod.rel == "redun/executors/local.py" and "self." in recv and "executor" in recv.lower() and recv != "self":
            continue
        if not c.args:
            continue
        q = mod.enclosing_qual(c)
        ok = (mod.rel, q) in SUBMIT_ALLOWED
        note = SUBMIT_ALLOWED.get((mod.rel, q), "")
        ecls = mod.enclosing_class(c)
        if not ok and ecls is not None and any(cc is base for _, cc in repo.mro(mod, ecls)):
            # executor-to-executor delegation: only reachable through that executor's own submit entry points
            meth = q.split(".")[-1]
            ok = meth in ("submit", "submit_script", "_submit", "_submit_script")
            note = "executor-to-executor delegation inside a submit entry point"
        r2.check(ok, f"{mod.rel}:{q}:{recv}.{last_attr(c)}", f"`{src(c)[:60]}` hands a job to an executor outside the scheduler's dry-run guard", mod.rel, c.lineno, note=note)

    r3 = ctx.rule("C28.3", "dry-run is forwarded to sub-schedulers, the loop stops on an empty queue, pending maps to DryRunResult", floor=4)
    sr = m.func("subrun")
    ok = False
    for n in ast.walk(sr):
        if isinstance(n, (ast.Assign, ast.AnnAssign)) and src(n.targets[0] if isinstance(n, ast.Assign) else n.target) == "run_config" and isinstance(n.value, ast.Dict):
            d = {src(k): src(v) for k, v in zip(n.value.keys, n.value.values)}
            ok = d.get("'dryrun'") == "scheduler._dryrun"
    r3.check(ok, f"{m.rel}:subrun:run_config", "subrun does not forward the parent's dryrun setting to the sub-scheduler", m.rel, sr.lineno)
    rt = m.func("_subrun_root_task")
    ok = any(call_name(c) in ("sub_scheduler.extend_run", "sub_scheduler.run") and any(k.arg is None and src(k.value) == "run_config" for k in c.keywords) for c in calls_in(rt))
    r3.check(ok, f"{m.rel}:_subrun_root_task:run_config", "the sub-scheduler is not started with **run_config", m.rel, rt.lineno)
    pe = m.func("Scheduler._process_events")
    ok = any(isinstance(n, ast.If) and src(n.test) == "self._dryrun and self.events_queue.empty()" and any(isinstance(b, ast.Break) for b in n.body) for n in ast.walk(pe))
    r3.check(ok, f"{m.rel}:Scheduler._process_events:dryrun-break", "the event loop does not stop when the queue is empty under dry-run (it would block forever)", m.rel, pe.lineno)
    rn = m.func("Scheduler.run")
    ok = any(isinstance(n, ast.If) and "result.is_pending and self._dryrun" in src(n.test) and any(isinstance(b, ast.Raise) and "DryRunResult" in src(b) for b in n.body) for n in ast.walk(rn))
    r3.check(ok, f"{m.rel}:Scheduler.run:DryRunResult", "a dry run that stops early is not reported as DryRunResult", m.rel, rn.lineno)
    pp = m.func("Scheduler._postprocess_result")
    ok = any(isinstance(n, ast.If) and "not self._dryrun" in src(n.test) and any("advance_handle" in src(b) for b in n.body) for n in ast.walk(pp))
    r3.check(ok, f"{m.rel}:Scheduler._postprocess_result:advance", "handle advance in _postprocess_result is not skipped under dry-run", m.rel, pp.lineno)
    rr = m.func("Scheduler._run")
    ok = any(isinstance(n, ast.Assign) and src(n.targets[0]) == "self._dryrun" and src(n.value) == "dryrun" for n in ast.walk(rr))
    r3.check(ok, f"{m.rel}:Scheduler._run:set-dryrun", "the run's dryrun argument is not stored in self._dryrun", m.rel, rr.lineno)

    # ---- C28.4 -----------------------------------------------------------
    r4 = ctx.rule("C28.4", "the dry-run flag influences no cache decision (necessary for 'a completed dry run returns what a real run returns')", floor=2)
    cache_fns = []
    for q, fn in m.funcs.items():
        if q.count(".") == 1 and q.startswith("Scheduler.") and any(last_attr(c) in ("check_cache", "get_eval_cache", "get_cache") and "backend" in src(c.func) for c in calls_in(fn)):
            cache_fns.append((q, fn))
    for q in ("Scheduler._is_valid_value",):
        cache_fns.append((q, m.func(q)))
    if not any(q == "Scheduler._get_cache" for q, _ in cache_fns):
        raise AnalysisError("no Scheduler method calling backend.check_cache found", "Scheduler._get_cache")
    for q, fn in cache_fns:
        reads = [n for n in ast.walk(fn) if isinstance(n, ast.Attribute) and n.attr in ("_dryrun", "dryrun") and isinstance(n.ctx, ast.Load)] + [
            n for n in ast.walk(fn) if isinstance(n, ast.Name) and n.id == "dryrun" and isinstance(n.ctx, ast.Load)
        ]
        if not reads:
            r4.good(f"{m.rel}:{q}:no-dryrun-read")
            continue
        for rd in reads:
            # the read must be (part of) the test of an `if` whose body only logs
            p = rd
            if_node = None
            while p is not None and p is not fn:
                par = m.parent.get(p)
                if isinstance(par, ast.If) and any(p is x for x in ast.walk(par.test)):
                    if_node = par
                    break
                if isinstance(par, ast.stmt):
                    break
                p = par
            ok = False
            if if_node is not None and not if_node.orelse:
                ok = all(isinstance(st, ast.Expr) and isinstance(st.value, ast.Call) and (last_attr(st.value) or "").lstrip("_").startswith("log") for st in if_node.body)
            r4.check(
                ok,
                f"{m.rel}:{q}:dryrun-read",
                f"{q} reads the dry-run flag at line {rd.lineno} for something other than logging: the cache lookup (scope, validity mode, accepted result) differs "
                "between a dry run and a real run on the same backend, so a completed dry run can return a value the real run would not",
                m.rel,
                rd.lineno,
            )
    # the backend's cache API has no dry-run parameter
    for mod in repo.modules.values():
        if not mod.rel.startswith("redun/backends/"):
            continue
        for q, fn in mod.funcs.items():
            if isinstance(fn, FuncNode) and any(a.arg == "dryrun" for a in fn.args.args + fn.args.kwonlyargs):
                r4.violation(f"{mod.rel}:{q}:dryrun-param", f"backend function {q} takes a dryrun parameter: cache answers may differ between dry and real runs", mod.rel, fn.lineno)
    r4.good("redun/backends:no-dryrun-parameter")

    # the cache verdict of a job comes from _get_cache(job) alone -- in particular not from a verdict remembered for another job under dry-run
    exq = lc.EXEC
    exf = m.func(exq)
    jv4 = exf.args.args[1].arg
    for n in ast.walk(exf):
        if isinstance(n, ast.Assign) and m.enclosing_func(n) is exf:
            tgts = [src(x) for t in n.targets for x in (t.elts if isinstance(t, ast.Tuple) else [t])]
            if f"{jv4}.was_cached" in tgts:
                from_lookup = isinstance(n.value, ast.Call) and call_name(n.value) == "self._get_cache" and n.value.args and src(n.value.args[0]) == jv4
                r4.check(
                    from_lookup,
                    f"{m.rel}:{exq}:was_cached-source",
                    f"`{src(n)[:90]}` sets the job's cache verdict from something other than self._get_cache({jv4}): whether a call may be answered from the cache depends on the job's own "
                    "options (cache_scope, check_valid, allowed_cache_results, prov), so a verdict taken from another job (e.g. a dry-run memo keyed by eval_hash) lets a dry run complete "
                    "with a value the real run would recompute",
                    m.rel,
                    n.lineno,
                )

    # ---- C28.5 -----------------------------------------------------------
    # "stops early => a real run executes at least one task": every way in which the hand-off fails a job *without* running its task must be
    # taken by the dry run as well, otherwise the dry run parks the job as `would run` while the real run only raises.
    r5 = ctx.rule("C28.5", "pre-submission rejections in the hand-off are not skipped by the dry-run exit", floor=2)
    from ..cfg import facts_at as _facts

    rej = [c for c in calls_in(ex) if call_name(c) == "self.reject_job" and m.enclosing_func(c) is ex]
    if len(rej) < 2:
        raise AnalysisError(f"{lc.EXEC}: expected >= 2 reject_job sites, found {len(rej)}", lc.EXEC)
    for c in rej:
        node = cfg.node_of(c)
        facts = _facts(cfg, node)
        in_handler = False
        p = m.parent.get(c)
        while p is not None and p is not ex:
            if isinstance(p, ast.ExceptHandler):
                in_handler = True
            p = m.parent.get(p)
        only_real = ("self._dryrun", False) in facts and not in_handler
        r5.check(
            not only_real,
            f"{m.rel}:{lc.EXEC}:reject-only-on-real-run:{src(c.args[1])[:40] if len(c.args) > 1 else c.lineno}",
            f"`{src(c)[:90]}` (line {c.lineno}) is reached only when self._dryrun is false: a job that the real run fails before calling any task (e.g. unknown executor) is left pending by the "
            "dry run, which then reports that additional jobs would run although a real run on this backend executes nothing",
            m.rel,
            c.lineno,
        )

    # ---- C28.6 (the obligations of C38.1, which this property depends on as well) ----
    from ..report import BorrowCtx
    from . import C38 as _borrowed_C38

    _borrowed_C38.run(BorrowCtx(ctx, {"C38.1": "C28.6"}))
