"""C29 -- script tasks run exactly the given command with correct staging (structural clauses).

The heredoc terminator can never equal a command line, the heredoc is quoted,
staging precedes and unstaging follows the wrapped command, and outputs are
mapped shape-preservingly.  Byte-for-byte reproduction when executed is not
decided.
"""

from __future__ import annotations

import ast

from ..cfg import CFG, facts_at
from ..core import AnalysisError, call_name, calls_in, const_str, kwarg, last_attr, src

EXPLANATION = (
    "C29.1 get_command_eof returns eof only on the false outcome of `eof in lines` with no assignment to eof/lines in between, lines being "
    "command.split('\\n') of the same parameter that get_wrapped_command interpolates; the template's heredoc delimiter is quoted (<<\"{eof}\") and "
    "`{command}` / `{eof}` each stand on their own line; C29.2 script(): command_parts receives stage(inputs) before the wrapped prepared command "
    "before unstage(outputs); staging iterates every leaf of inputs, unstaging every Staging leaf of outputs; C29.3 postprocess_script maps the "
    "outputs with map_nested_value: File('-') -> result, Staging -> remote class at the remote path; C29.4 prepare_command dedents/strips and "
    "prepends the default shell exactly when the text does not start with '#!'."
    ' C29.2 also: the stage/unstage command lists are one per Staging leaf: walking back from command_parts.extend(...) to iter_nested_value(spec) only list/generator comprehensions filtered by isinstance(.., Staging) and single-assignment names may occur; a dict/set keyed by part of the leaf is reported.'
)

SC = "redun/scripting.py"


def run(ctx):
    repo = ctx.repo
    m = repo.mod(SC)

    r1 = ctx.rule("C29.1", "heredoc terminator never equals a command line; heredoc is quoted", floor=4)
    ge = m.func("get_command_eof")
    cfg = CFG(ge)
    p = ge.args.args[0].arg
    rets = [n for n in cfg.nodes if n.kind == "stmt" and isinstance(n.ast, ast.Return)]
    ok = len(rets) == 1 and isinstance(rets[0].ast.value, ast.Name)
    if ok:
        ev = rets[0].ast.value.id
        facts = facts_at(cfg, rets[0])
        inl = [f for f, t in facts if not t and f.startswith(f"{ev} in ")]
        ok = len(inl) == 1
        if ok:
            lv = inl[0].split(" in ")[1]
            ldef = [n for n in ast.walk(ge) if isinstance(n, ast.Assign) and src(n.targets[0]) == lv]
            ok = len(ldef) == 1 and src(ldef[0].value) == f"{p}.split('\\n')"
            # no assignment to eof/lines between the test and the return
            test = next(n for n in cfg.nodes if n.kind == "test" and src(n.ast) == inl[0])
            fe = cfg.edge_nodes(test, "F")[0]
            between = [n for n in cfg.nodes if n.kind == "stmt" and isinstance(n.ast, (ast.Assign, ast.AugAssign)) and cfg.can_reach(fe, n) and cfg.can_reach(n, rets[0]) and not cfg.can_reach(n, test)]
            ok = ok and not between
    r1.check(bool(ok), f"{m.rel}:get_command_eof:guarded-return", "the terminator is returned without the guarantee that it is not one of the command's lines (split on newline of the same command)", m.rel, ge.lineno)
    loop_ok = any(isinstance(n, ast.While) for n in ast.walk(ge)) and "eof_prefix + str(index)" in src(ge)
    r1.check(loop_ok, f"{m.rel}:get_command_eof:search", "candidates are not generated as prefix + increasing index until one is free", m.rel, ge.lineno)
    gw = m.func("get_wrapped_command")
    tmpl = None
    fmt = None
    for c in calls_in(gw):
        if last_attr(c) == "format" and isinstance(c.func, ast.Attribute) and isinstance(c.func.value, ast.Constant):
            tmpl, fmt = c.func.value.value, c
    if tmpl is None:
        raise AnalysisError("get_wrapped_command: template.format(...) not found", "get_wrapped_command")
    lines = tmpl.split("\n")
    ok = any(l.rstrip().endswith('<<"{eof}"') for l in lines) and "{command}" in lines and "{eof}" in lines and lines.index("{command}") + 1 == lines.index("{eof}") and lines.index("{command}") == [i for i, l in enumerate(lines) if '<<"{eof}"' in l][0] + 1
    r1.check(ok, f"{m.rel}:get_wrapped_command:template", "the heredoc is not `<<\"{eof}\"` (quoted: no expansion) immediately followed by the command and the terminator on their own lines", m.rel, gw.lineno)
    gp = gw.args.args[0].arg
    ok = src(kwarg(fmt, "command")) == gp and isinstance(kwarg(fmt, "eof"), ast.Call) and call_name(kwarg(fmt, "eof")) == "get_command_eof" and src(kwarg(fmt, "eof").args[0]) == gp
    r1.check(ok, f"{m.rel}:get_wrapped_command:same-command", "the terminator is not computed from the same command text that is interpolated", m.rel, gw.lineno)

    r2 = ctx.rule("C29.2", "script(): stage inputs < wrapped command < unstage outputs; all leaves covered", floor=3)
    sf = m.func("script")
    muts = []
    for n in ast.walk(sf):
        if isinstance(n, ast.Call) and call_name(n) in ("command_parts.append", "command_parts.extend") and m.enclosing_func(n) is sf:
            t = src(n.args[0])
            kind = "stage" if "render_stage" in t else "unstage" if "render_unstage" in t else "command" if "get_wrapped_command" in t else "cd" if "cd" in t else "?"
            muts.append((n.lineno, kind, t))
    muts.sort()
    kinds = [k for _, k, _ in muts]
    ok = [k for k in kinds if k != "cd"] == ["stage", "command", "unstage"] and (kinds[0] == "cd" or "cd" not in kinds)
    r2.check(ok, f"{m.rel}:script:order", f"command parts are assembled in the order {kinds}", m.rel, sf.lineno)
    tt = {k: t for _, k, t in muts}
    ok = "iter_nested_value(inputs)" in tt.get("stage", "") and "get_wrapped_command(prepare_command(command))" in tt.get("command", "")
    r2.check(ok, f"{m.rel}:script:stage-all-inputs", "not every leaf of inputs is staged, or the user command is not prepared and wrapped", m.rel, sf.lineno)
    fs = [n for n in ast.walk(sf) if isinstance(n, ast.Assign) and src(n.targets[0]) == "file_stages"]
    ok = len(fs) == 1 and "iter_nested_value(outputs)" in src(fs[0].value) and "isinstance(value, Staging)" in src(fs[0].value) and "in file_stages" in tt.get("unstage", "")
    r2.check(ok, f"{m.rel}:script:unstage-all-outputs", "not every Staging leaf of outputs is unstaged", m.rel, sf.lineno)
    # multiplicity: the staging/unstaging commands are one per Staging leaf.  Walk back from the argument of command_parts.extend(...) to
    # iter_nested_value(<spec>): only sequence-preserving steps (list/generator comprehension, single-assignment names, list()) may occur;
    # a dict/set keyed by part of the leaf (its local path, say) merges leaves that differ elsewhere (two remotes fed from one local file).
    for kind, spec in (("stage", "inputs"), ("unstage", "outputs")):
        call = next((n for n in ast.walk(sf) if isinstance(n, ast.Call) and call_name(n) in ("command_parts.append", "command_parts.extend") and f"render_{kind}" in src(n)), None)
        if call is None:
            continue
        why = _collapsing_step(sf, call.args[0], spec, set())
        r2.check(
            why is None,
            f"{m.rel}:script:{kind}-per-leaf",
            f"the {kind} commands are not one per Staging leaf of `{spec}`: {why}; leaves that agree on that part but differ otherwise (e.g. one local file copied to two remote paths) get a single "
            "command, and the task returns a remote file that was never written",
            m.rel,
            call.lineno,
        )
    ok = 'full_command = "\\n".join(command_parts)'.replace('"', "'") in src(sf)
    r2.check(ok, f"{m.rel}:script:join", "the parts are not joined by newlines in order", m.rel, sf.lineno)

    r3 = ctx.rule("C29.3", "outputs are mapped shape-preservingly: stdout file -> result, staging -> remote file", floor=2)
    pp = m.func("postprocess_script")
    rets = [src(r.value) for r in ast.walk(pp) if isinstance(r, ast.Return) and m.enclosing_func(r) is pp]
    r3.check(rets == ["map_nested_value(get_file, outputs)"], f"{m.rel}:postprocess_script:map", f"outputs are not mapped leaf by leaf ({rets})", m.rel, pp.lineno)
    gf = m.funcs.get("postprocess_script.get_file")
    t = src(gf) if gf is not None else ""
    ok = "isinstance(value, File) and value.path == '-'" in t and "return result" in t and "isinstance(value, Staging)" in t and "cls = type(value.remote)" in t and "return cls(value.remote.path)" in t and t.rstrip().endswith("return value")
    r3.check(ok, f"{m.rel}:postprocess_script.get_file", "File('-') is not replaced by the command's output / Staging by its remote file / other leaves kept", m.rel, pp.lineno)
    sc = m.func("_script")
    ok = "postprocess_script(script_task.options(**task_options)(command), outputs, temp_path=temp_path)" in src(sc)
    r3.check(ok, f"{m.rel}:_script", "_script does not post-process the script task's output with the outputs spec", m.rel, sc.lineno)

    r4 = ctx.rule("C29.4", "prepare_command: dedent+strip, default shell iff no shebang", floor=1)
    pc = m.func("prepare_command")
    cfg = CFG(pc)
    ok = False
    for n in cfg.nodes:
        if n.kind == "stmt" and isinstance(n.ast, ast.Assign) and "default_shell" in src(n.ast.value):
            facts = facts_at(cfg, n)
            ok = (f"{pc.args.args[0].arg}.startswith('#!')", False) in facts and src(n.ast.value).endswith("+ command")
    t = src(pc)
    ok = ok and "command = dedent(command).strip()" in t and t.rstrip().endswith("return command")
    r4.check(ok, f"{m.rel}:prepare_command", "the default shell is not prepended exactly when the dedented text lacks a shebang", m.rel, pc.lineno)
    # ---- C29.5 the command text handed to a container executor is the one that is staged ----------
    # Scratch paths are keyed by the job's eval hash; the text a script task returns is not part of that key (it can come from unhashed helpers).
    # Whatever get_script_task_command / get_oneshot_command are given must therefore be written every time -- a file that already exists under
    # that path holds the text (or pickled arguments) of an earlier submission.
    r5 = ctx.rule("C29.5", "executor command builders write the command / input file unconditionally", floor=2)
    from ..filerules import existence_gated_writes

    cmdm = repo.mod("redun/executors/command.py")
    nw = 0
    for q in ("get_script_task_command", "get_oneshot_command"):
        fn = cmdm.func(q)
        writes = [c for c in calls_in(fn) if isinstance(c.func, ast.Attribute) and (c.func.attr == "write" or (c.func.attr == "open" and any(isinstance(a, ast.Constant) and isinstance(a.value, str) and "w" in a.value for a in c.args)))]
        nw += len(writes)
        gated = existence_gated_writes(cmdm, fn)
        r5.check(
            bool(writes) and not gated,
            f"{cmdm.rel}:{q}:input-written-every-time",
            (f"{q} writes the job's input/command file only when `{gated[0][1]}` is false" if gated else f"{q} no longer writes the job's input/command file")
            + ": the scratch path is keyed by the eval hash, which does not cover the command text of a script task, so a re-submission with a different text (retry after fixing a helper, cache=False) "
            "stages and runs the text of the earlier submission",
            cmdm.rel,
            gated[0][0].lineno if gated else fn.lineno,
        )
    if nw < 2:
        raise AnalysisError("command builders: input-file writes not found", "redun/executors/command.py")
    # ---- C29.6 an explicit local path is taken literally when a file is staged ----------------------
    # script() self-stages every plain output File with value.stage(value.path) and relies on local.path == remote.path for "nothing to copy".
    # File.stage may fill in a basename when no local path (or a directory) is given; any other rewriting of the given path (normalising slashes,
    # splitting and re-joining) makes the pair unequal for some spellings and appends a `cp x x` that fails under `set -e`.
    r6 = ctx.rule("C29.6", "File.stage rewrites its `local` argument only when it is empty or a directory", floor=1)
    fm6 = repo.mod("redun/file.py")
    n6 = 0
    for q6 in ("File.stage", "Dir.stage"):
        fn6 = fm6.funcs.get(q6)
        if fn6 is None or len(fn6.args.args) < 2:
            continue
        lp = fn6.args.args[1].arg
        cfg6 = CFG(fn6)
        for nd in cfg6.nodes:
            if nd.kind == "stmt" and isinstance(nd.ast, ast.Assign) and any(isinstance(t, ast.Name) and t.id == lp for t in nd.ast.targets):
                n6 += 1
                from ..cfg import facts_at as _fa6

                facts = _fa6(cfg6, nd)
                allowed = any((f == f"not {lp}" and t) or (f == lp and not t) or (f.startswith(f"{lp}.endswith(") and t) for f, t in facts)
                r6.check(
                    allowed,
                    f"{fm6.rel}:{q6}:rewrites-local",
                    f"`{src(nd.ast)}` in {q6} rewrites the caller's local path on a path where it is neither empty nor a directory: for spellings the rewrite changes (a doubled slash, say) "
                    "`File(p).stage(p)` no longer has local == remote, so script() emits an unstage copy of the file onto itself and the task fails instead of returning its outputs",
                    fm6.rel,
                    nd.lineno,
                )
    if n6 == 0:
        r6.good(f"{fm6.rel}:File.stage:no-rewrite", "the local path is never reassigned")


def _collapsing_step(fn, e, spec, seen):
    """None when `e` enumerates the Staging leaves of iter_nested_value(<spec>) one by one; otherwise a description of the step that can merge leaves."""
    if isinstance(e, ast.Call) and call_name(e) == "iter_nested_value":
        return None if e.args and src(e.args[0]) == spec else f"`{src(e)}` does not enumerate `{spec}`"
    if isinstance(e, (ast.ListComp, ast.GeneratorExp)):
        if len(e.generators) != 1:
            return f"`{src(e)[:70]}` (unknown comprehension shape)"
        g = e.generators[0]
        for i in g.ifs:
            if not (isinstance(i, ast.Call) and call_name(i) == "isinstance" and src(i.args[1]) == "Staging"):
                return f"`if {src(i)}` drops leaves"
        return _collapsing_step(fn, g.iter, spec, seen)
    if isinstance(e, ast.Call) and isinstance(e.func, ast.Name) and e.func.id in ("list", "tuple", "iter") and len(e.args) == 1:
        return _collapsing_step(fn, e.args[0], spec, seen)
    if isinstance(e, ast.Name):
        if e.id in seen:
            return f"`{e.id}` is defined cyclically"
        defs = [n for n in ast.walk(fn) if isinstance(n, ast.Assign) and any(isinstance(t, ast.Name) and t.id == e.id for t in n.targets)]
        if len(defs) != 1:
            return f"`{e.id}` is assigned {len(defs)} times"
        return _collapsing_step(fn, defs[0].value, spec, seen | {e.id})
    if isinstance(e, ast.Call) and isinstance(e.func, ast.Attribute) and e.func.attr in ("values", "keys", "items") and not e.args:
        return _collapsing_step(fn, e.func.value, spec, seen)
    if isinstance(e, (ast.DictComp, ast.SetComp)):
        key = e.key if isinstance(e, ast.DictComp) else e.elt
        var = src(e.generators[0].target)
        kt = src(key)
        whole = kt == var or (f"{var}.local" in kt and f"{var}.remote" in kt)
        if whole:
            inner = ast.ListComp(elt=e.generators[0].target, generators=e.generators)
            return _collapsing_step(fn, ast.copy_location(inner, e), spec, seen)
        return f"`{src(e)[:90]}` keys the leaves by `{kt}` only"
    if isinstance(e, ast.Call) and isinstance(e.func, ast.Name) and e.func.id in ("set", "frozenset", "dict"):
        return f"`{src(e)[:70]}` collapses equal elements"
    return f"`{src(e)[:70]}` is not a recognised per-leaf enumeration"
