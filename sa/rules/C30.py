"""C30 -- file value hashes track the filesystem (structural clauses).

Every redun operation that mutates a file value's path refreshes that value's
hash before the value is returned; hashing is total on a missing path; write
streams refresh the hash on close; content hashes derive from bytes only;
validity is `recorded hash == fresh hash`.
"""

from __future__ import annotations

import ast

from ..cfg import CFG, facts_at
from ..core import AnalysisError, FuncNode, call_name, calls_in, const_str, kwarg, last_attr, names_in, src
from ..filerules import FILE, missing_path_obligations, walk_join_obligations

EXPLANATION = (
    "C30.1 mutator refresh: in every method of the File/FileSet/Dir hierarchy, an object whose path is the target of a filesystem copy / "
    "mkdir / rmdir, or whose child file is copied into, has update_hash() called on every CFG path from the mutation to the exit; "
    "C30.2 every call that raises on a missing path inside a hash computation (file value classes and the four filesystem get_hash siblings) "
    "is behind an exists() test or a matching try/except; C30.3 File.open installs the close hook that rehashes for modes containing w a x +; "
    "C30.4 ContentFile hashes the byte stream and the path only; C30.5 is_valid compares the recorded hash with a fresh _calc_hash; "
    "staging returns the refreshed destination."
)


def run(ctx):
    repo = ctx.repo
    m = repo.mod(FILE)

    r1 = ctx.rule("C30.1", "mutated file values are rehashed on every path before being returned", floor=4)
    roots = [m.cls("File"), m.cls("FileSet")]
    seen = set()
    for root in roots:
        for cm, c in repo.subclasses(root):
            for st in c.body:
                if not isinstance(st, FuncNode) or id(st) in seen:
                    continue
                seen.add(id(st))
                muts = []  # (call, object text)
                for x in calls_in(st):
                    la = last_attr(x)
                    d = call_name(x) or ""
                    if la == "copy" and ".filesystem." in d and len(x.args) == 2:
                        dest = src(x.args[1])
                        if dest.endswith(".path"):
                            muts.append((x, dest[: -len(".path")]))
                    elif la in ("mkdir", "rmdir") and d.startswith("self.filesystem.") and x.args and src(x.args[0]) == "self.path":
                        muts.append((x, "self"))
                    elif la == "copy_to" and x.args and isinstance(x.args[0], ast.Name):
                        # destination derived from a container object: D.file(...) -> D is mutated
                        dv = x.args[0].id
                        for a in ast.walk(st):
                            if isinstance(a, ast.Assign) and any(isinstance(t, ast.Name) and t.id == dv for t in a.targets) and isinstance(a.value, ast.Call) and last_attr(a.value) == "file":
                                muts.append((x, src(a.value.func.value)))
                if not muts:
                    continue
                cfg = CFG(st)
                for x, obj in muts:
                    node = cfg.node_of(x)
                    upd = [cfg.node_of(u) for u in calls_in(st, shallow=True) if call_name(u) == f"{obj}.update_hash"]
                    ok = bool(upd) and cfg.must_pass(node, upd)
                    r1.check(
                        ok,
                        f"{cm.rel}:{c.name}.{st.name}:{obj}",
                        f"`{src(x)[:60]}` changes the filesystem state under `{obj}` but `{obj}.update_hash()` is not called on every path to the return: "
                        f"`{obj}` keeps the hash of the old state (stale, and is_valid() reports a change that redun made itself)",
                        cm.rel,
                        x.lineno,
                    )

    # a copy method hands back its destination argument: whatever path is taken (including "destination exists, nothing copied") the returned
    # object must have been rehashed -- it may carry a hash cached before the file on disk was last changed.
    ncopy = 0
    for root in roots + [m.cls("Dir")]:
        for cm, c in repo.subclasses(root):
            for st in c.body:
                if not isinstance(st, FuncNode) or st.name != "copy_to" or ("copy_to-ret", id(st)) in seen:
                    continue
                seen.add(("copy_to-ret", id(st)))
                params = {a.arg for a in st.args.args[1:]}
                cfgc = CFG(st)
                for nn in cfgc.nodes:
                    if nn.kind == "stmt" and isinstance(nn.ast, ast.Return) and isinstance(nn.ast.value, ast.Name) and nn.ast.value.id in params:
                        obj = nn.ast.value.id
                        ncopy += 1
                        upd = [cfgc.node_of(u) for u in calls_in(st, shallow=True) if call_name(u) == f"{obj}.update_hash"]
                        r1.check(
                            bool(upd) and cfgc.must_pass(cfgc.entry, upd, targets=[nn]),
                            f"{cm.rel}:{c.name}.copy_to:return-{obj}@{'skip' if any(f.startswith('skip_if_exists') and t for f, t in facts_at(cfgc, nn)) else 'copy'}",
                            f"{c.name}.copy_to returns `{obj}` (line {nn.lineno}) on a path without `{obj}.update_hash()`: the object may hold a hash cached before the file was last modified, so the file "
                            "value returned by a redun copy has a recorded hash that differs from a fresh hash of the filesystem state",
                            cm.rel,
                            nn.lineno,
                        )
    if ncopy < 2:
        raise AnalysisError(f"only {ncopy} `return <destination>` sites found in copy_to methods", "copy_to")

    r2 = ctx.rule("C30.2", "hash computations are total on a missing path", floor=12)
    for construct, ok, msg, rel, line in missing_path_obligations(repo):
        r2.check(ok, construct, msg, rel, line, note=msg if ok else "")

    r3 = ctx.rule("C30.3", "write streams rehash on close", floor=2)
    op = m.func("File.open")
    ok_modes = False
    hook = False
    for n in ast.walk(op):
        if isinstance(n, ast.If) and "set(mode)" in src(n.test):
            sets = [s for s in ast.walk(n.test) if isinstance(s, ast.Set)]
            if sets:
                vals = {const_str(e) for e in sets[0].elts}
                ok_modes = {"w", "a", "x", "+"} <= vals
            closure = next((b for b in n.body if isinstance(b, FuncNode)), None)
            if closure is not None:
                calls = [call_name(c) for c in calls_in(closure)]
                installs = any(isinstance(b, ast.Assign) and src(b.targets[0]) == "stream.close" and src(b.value) == closure.name for b in n.body)
                hook = "self.update_hash" in calls and any(c and c.endswith("close") for c in calls) and installs
                # update after the real close
                order = [c for c in calls if c in ("self.update_hash",) or (c and c.endswith("close"))]
                hook = hook and order and order[0] != "self.update_hash"
    r3.check(ok_modes, f"{m.rel}:File.open:modes", "the rehash-on-close hook is not installed for every writing mode (w, a, x, +)", m.rel, op.lineno)
    r3.check(bool(hook), f"{m.rel}:File.open:close-hook", "closing a write stream does not call update_hash() after the real close", m.rel, op.lineno)
    wr = m.func("File.write")
    ok = any(isinstance(n, ast.With) and "self.open(" in src(n.items[0].context_expr) for n in ast.walk(wr))
    r3.check(ok, f"{m.rel}:File.write", "File.write does not go through File.open (whose close hook rehashes)", m.rel, wr.lineno)

    r4 = ctx.rule("C30.4", "ContentFile hash derives from the bytes and the path only", floor=1)
    cf = m.func("ContentFile._calc_hash")
    t = src(cf)
    calls = {last_attr(c) for c in calls_in(cf)}
    ok = "hash_stream" in calls and not ({"stat", "getmtime", "getsize", "get_hash"} & calls) and "self.path" in t
    r4.check(ok, f"{m.rel}:ContentFile._calc_hash", "ContentFile's hash is not hash_stream(bytes) + path (it consults metadata, or ignores the content)", m.rel, cf.lineno)

    # every content-hashed class: the resolved _calc_hash must not go through the filesystem's quick (size/mtime/ETag) hashes
    ncontent = 0
    for root in (m.cls("File"), m.cls("FileSet")):
        for cm, c in repo.subclasses(root, strict=True):
            if not c.name.startswith("Content") or "Staging" in c.name:
                continue
            res = repo.resolve_method(cm, c, "_calc_hash")
            if res is None:
                continue
            ncontent += 1
            fm, owner, fn = res
            quick = [src(x)[:60] for x in calls_in(fn) if last_attr(x) in ("get_hash", "iter_file_hashes") and "filesystem" in src(x.func)]
            r4.check(
                not quick,
                f"{cm.rel}:{c.name}._calc_hash[{owner.name}]:content-hashed",
                f"{c.name} is a content-hashed class but its hash is computed by {owner.name}._calc_hash through `{quick[0] if quick else ''}`, i.e. the filesystem's quick member hashes "
                "(size/mtime): touching a member changes the hash and invalidates cached results although no byte changed",
                fm.rel,
                fn.lineno,
            )
    if ncontent < 3:
        raise AnalysisError(f"only {ncontent} content-hashed file classes found", "redun/file.py")

    r5 = ctx.rule("C30.5", "validity = recorded hash equals fresh hash; staging returns the refreshed copy", floor=4)
    for q in ("File.is_valid", "FileSet.is_valid"):
        fn = m.func(q)
        rets = [src(r.value) for r in ast.walk(fn) if isinstance(r, ast.Return)]
        ok = "self.hash == self._calc_hash()" in rets and any(call_name(c) == "self.update_hash" for c in calls_in(fn))
        r5.check(ok, f"{m.rel}:{q}", f"{q} is not `recorded hash == self._calc_hash()` (with first-use initialisation)", m.rel, fn.lineno)
    for q, a, b in (("StagingFile.stage", "remote", "local"), ("StagingFile.unstage", "local", "remote"), ("StagingDir.stage", "remote", "local"), ("StagingDir.unstage", "local", "remote")):
        fn = m.func(q)
        rets = [src(r.value) for r in ast.walk(fn) if isinstance(r, ast.Return)]
        ok = f"self.{a}.copy_to(self.{b})" in rets
        r5.check(ok, f"{m.rel}:{q}", f"{q} does not return self.{a}.copy_to(self.{b}) (the destination refreshed by copy_to)", m.rel, fn.lineno)
    fc = m.func("File.copy_to")
    r5.check("dest_file.update_hash()" in src(fc), f"{m.rel}:File.copy_to", "File.copy_to does not refresh the destination's hash", m.rel, fc.lineno)
    # every object a stage()/unstage() returns was refreshed on that path: it is the result of copy_to(..) (C30.1 covers its returns) or update_hash()
    # was called on it -- also when local and remote are the same path and nothing is copied
    for q in ("StagingFile.stage", "StagingFile.unstage", "StagingDir.stage", "StagingDir.unstage"):
        fn = m.func(q)
        cfgs = CFG(fn)
        for nn in cfgs.nodes:
            if nn.kind == "stmt" and isinstance(nn.ast, ast.Return) and nn.ast.value is not None and not (isinstance(nn.ast.value, ast.Call) and last_attr(nn.ast.value) == "copy_to"):
                obj = src(nn.ast.value)
                upd = [cfgs.node_of(u) for u in calls_in(fn, shallow=True) if call_name(u) == f"{obj}.update_hash"]
                r5.check(
                    bool(upd) and cfgs.must_pass(cfgs.entry, upd, targets=[nn]),
                    f"{m.rel}:{q}:return-{obj}",
                    f"{q} returns `{obj}` (line {nn.lineno}) without copying and without `{obj}.update_hash()`: when local and remote are the same path the value handed back keeps a hash cached before the file "
                    "was last changed, so a value redun just 'staged' has a recorded hash different from the fresh one",
                    m.rel,
                    nn.lineno,
                )
    # File methods that change the path's state through the filesystem object refresh (or drop) the cached hash
    for q, mut in (("File.remove", "remove"), ("File.touch", "touch")):
        fn = m.func(q)
        cfgm = CFG(fn)
        muts_ = [cfgm.node_of(c) for c in calls_in(fn, shallow=True) if call_name(c) == f"self.filesystem.{mut}"]
        if not muts_:
            raise AnalysisError(f"{q}: self.filesystem.{mut}(...) not found", q)
        refresh = [n for n in cfgm.nodes if n.kind == "stmt" and n.ast is not None and (any(isinstance(c, ast.Call) and call_name(c) == "self.update_hash" for c in ast.walk(n.ast)) or (isinstance(n.ast, ast.Assign) and any(src(t) == "self._hash" for t in n.ast.targets) and isinstance(n.ast.value, ast.Constant) and n.ast.value.value is None))]
        for mu in muts_:
            r5.check(
                bool(refresh) and cfgm.must_pass(mu, refresh),
                f"{m.rel}:{q}:refreshes-hash",
                f"{q} changes the file through self.filesystem.{mut}() and leaves self._hash as it was: the object keeps the hash of the previous state (after remove(): of the file that existed; after touch(): of the "
                "missing path / the old mtime), so `.hash` differs from a fresh hash of the current state",
                m.rel,
                mu.lineno,
            )

    rw = ctx.rule("C30.6", "directory member hashes address each member at its own path (os.walk join idiom)", floor=1)
    for construct, ok, msg, rel, line in walk_join_obligations(repo):
        rw.check(ok, construct, msg, rel, line)
    re_ = ctx.rule("C30.8", "the files hashed for a directory are (at least) the files that iterating the directory yields", floor=4)
    from ..filerules import dir_hash_enumeration_obligations

    for construct, ok, msg, rel, line in dir_hash_enumeration_obligations(repo):
        re_.check(ok, construct, msg, rel, line)

    # ---- C30.7 S3 directory listings are bounded by the directory, not by a name prefix ----
    r7 = ctx.rule("C30.7", "S3 listings for a directory use a '/'-terminated prefix or filter the returned keys by '<dir>/'", floor=2)
    s3c = m.cls("S3FileSystem")
    nlist = 0
    for st in s3c.body:
        if not isinstance(st, FuncNode):
            continue
        for c in calls_in(st):
            pv = kwarg(c, "Prefix")
            if pv is None:
                continue
            nlist += 1
            v = pv
            if isinstance(v, ast.Name):
                defs = [a for a in ast.walk(st) if isinstance(a, ast.Assign) and any(isinstance(t, ast.Name) and t.id == v.id for t in a.targets)]
                if len(defs) == 1:
                    v = defs[0].value
            terminated = isinstance(v, ast.BinOp) and isinstance(v.op, ast.Add) and isinstance(v.right, ast.Constant) and v.right.value == "/"
            filtered = any(
                isinstance(x, ast.Call) and isinstance(x.func, ast.Attribute) and x.func.attr == "startswith" and x.args and isinstance(x.args[0], ast.BinOp) and isinstance(x.args[0].right, ast.Constant) and x.args[0].right.value == "/"
                for x in ast.walk(st)
            )
            r7.check(
                terminated or filtered,
                f"{m.rel}:S3FileSystem.{st.name}:Prefix",
                f"S3FileSystem.{st.name} lists objects with Prefix={src(pv)} (no trailing '/') and does not filter the keys: for the directory s3://b/dir the listing also returns s3://b/dir2/x and "
                "s3://b/dir.bak, so the hash of a Dir changes when an unrelated sibling changes and is not the hash of the directory's own state",
                m.rel,
                c.lineno,
            )
    if nlist < 2:
        raise AnalysisError(f"only {nlist} S3 listings with Prefix= found in S3FileSystem", "S3FileSystem")

    # ---- C30.9 a file value handed back by a library task is hashed after the task's copies have run ----
    # A File/Dir object built inside a task body and returned through a lazy `seq([<copy tasks>, value])[i]` is hashed when the seq expression is
    # hashed, i.e. before any of the copies ran; nothing refreshes it afterwards.
    r9 = ctx.rule("C30.9", "redun.tools tasks do not return a file value whose hash was fixed before the copies they schedule", floor=1)
    tm9 = repo.mod("redun/tools.py")
    n9 = 0
    for q9, fn9 in tm9.funcs.items():
        if "." in q9:
            continue
        made = {src(a.targets[0]) for a in ast.walk(fn9) if isinstance(a, ast.Assign) and isinstance(a.targets[0], ast.Name) and isinstance(a.value, ast.Call) and (last_attr(a.value) in ("Dir", "File") or call_name(a.value) in ("Dir", "File"))}
        for c in calls_in(fn9):
            if call_name(c) == "seq" and c.args and isinstance(c.args[0], (ast.List, ast.Tuple)):
                n9 += 1
                elts = c.args[0].elts
                stale = [src(e) for e in elts if isinstance(e, ast.Name) and e.id in made]
                has_tasks = any(isinstance(e, ast.Call) for e in elts)
                r9.check(
                    not (stale and has_tasks),
                    f"{tm9.rel}:{q9}:seq-returns-prehashed:{stale[0] if stale else ''}",
                    f"{q9} puts `{stale[0] if stale else ''}` (created in the task body) into seq([...]) next to the tasks that fill it: the value's hash is computed when the expression is hashed, before those tasks "
                    "run, and nothing refreshes it -- the Dir returned by copy_dir has the hash of the destination before the copy (is_valid() is False on the value just returned)",
                    tm9.rel,
                    c.lineno,
                )
    if n9 == 0:
        r9.good(f"{tm9.rel}:no-seq", "no lazily sequenced file value")
