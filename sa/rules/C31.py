"""C31 -- value storage location is transparent (structural clauses).

Size rejection precedes every store, missing offloaded bytes read as absent
(never as a different value), the placeholder convention agrees between writer
and reader, and the hash is computed from the real bytes.
"""

from __future__ import annotations

import ast

from ..cfg import CFG, facts_at
from ..core import AnalysisError, call_name, calls_in, kwarg, last_attr, src

EXPLANATION = (
    "C31.1 in record_value the `len(data) > max` rejection (raise) dominates value_store.put and the Value row insert; C31.2 unchecked-result "
    "discipline: every caller of _get_value_data / ValueStore.get unpacks (data, has_value) and reaches deserialisation only on the has_value "
    "branch; C31.3 placeholder agreement: the writer substitutes b'' exactly in the block where it called value_store.put, after the hash was "
    "computed from the real data; the reader's in_value_store is `len(value) == 0` and falls back to the store only then; C31.4 missing bytes: "
    "ValueStore.get maps FileNotFoundError to (b'', False), FileCache.deserialize raises InvalidValueError for a missing file and "
    "_deserialize_value maps it to (None, False). C31.5 in record_value the offload test (value store configured and size >= threshold) dominates every `return value_hash`, so recording a value whose row exists also re-puts lost bytes."
)

DB = "redun/backends/db/__init__.py"


def run(ctx):
    repo = ctx.repo
    db = repo.mod(DB)
    rv = db.func("RedunBackendDb.record_value")
    cfg = CFG(rv)

    r1 = ctx.rule("C31.1", "oversized values are rejected before anything is stored", floor=2)
    guard = None
    for n in cfg.nodes:
        if n.kind == "test" and "self._max_value_size" in src(n.ast) and "len(data)" in src(n.ast):
            guard = n
    if guard is None:
        raise AnalysisError("record_value: max-size test not found", "RedunBackendDb.record_value")
    r1.check(isinstance(guard.ast, ast.Compare) and isinstance(guard.ast.ops[0], ast.Gt), f"{db.rel}:RedunBackendDb.record_value:max-test", f"the size test is `{src(guard.ast)}`", db.rel, guard.lineno)
    raises = [n for n in cfg.nodes if n.kind == "stmt" and isinstance(n.ast, ast.Raise) and any(cfg.dominates(e, n) for e in cfg.edge_nodes(guard, "T"))]
    r1.check(bool(raises), f"{db.rel}:RedunBackendDb.record_value:reject", "an oversized value is not rejected with an exception", db.rel, guard.lineno)
    stores = [c for c in calls_in(rv, shallow=True) if (call_name(c) or "").endswith("value_store.put") or call_name(c) == "Value"]
    if not any((call_name(c) or "").endswith("value_store.put") for c in stores):
        r1.violation(f"{db.rel}:RedunBackendDb.record_value:no-put", "record_value substitutes/uses the value-store placeholder path but never puts the bytes into the value store: offloaded values read back as absent or empty", db.rel, rv.lineno)
        for r in ctx.rules:
            r.floor = 0
        return
    if len(stores) < 2:
        raise AnalysisError("record_value: Value(...) insert not found", "RedunBackendDb.record_value")
    fe = cfg.edge_nodes(guard, "F")
    for c in stores:
        ok = any(cfg.dominates(e, cfg.node_of(c)) for e in fe)
        r1.check(ok, f"{db.rel}:RedunBackendDb.record_value:{call_name(c)}", f"`{call_name(c)}` can be reached without passing the size rejection", db.rel, c.lineno)
    sizes = [n for n in ast.walk(rv) if isinstance(n, ast.Assign) and src(n.targets[0]) == "data" and n.lineno > guard.lineno and src(n.value) != "b''"]
    r1.check(not sizes, f"{db.rel}:RedunBackendDb.record_value:no-rewrite", "the data is rewritten (e.g. truncated) after the size test", db.rel, rv.lineno)

    r2 = ctx.rule("C31.2", "readers test has_value before using the data", floor=2)
    n = 0
    for mod in repo.modules.values():
        for q, fn in mod.funcs.items():
            for c in calls_in(fn):
                if mod.enclosing_func(c) is not fn:
                    continue
                d = call_name(c) or ""
                if d == "self._get_value_data" or (d.endswith("value_store.get") and mod.rel == DB and q.endswith("_get_value_data") is False and "value_store.get" in d and q != "RedunBackendDb._get_value_data"):
                    n += 1
                    par = mod.parent.get(c)
                    ok = isinstance(par, ast.Assign) and isinstance(par.targets[0], ast.Tuple) and len(par.targets[0].elts) == 2
                    if ok:
                        dv, hv = [src(e) for e in par.targets[0].elts]
                        c2 = CFG(fn)
                        uses = [x for x in calls_in(fn) if (call_name(x) or "").split(".")[-1] in ("_deserialize_value", "pickle_loads", "deserialize") and dv in {nn.id for a in x.args for nn in ast.walk(a) if isinstance(nn, ast.Name)}]
                        for u in uses:
                            facts = facts_at(c2, c2.node_of(u))
                            ok = ok and ((hv, True) in facts or any(f == hv and t for f, t in facts) or _after_negative_return(c2, u, hv))
                    r2.check(bool(ok), f"{mod.rel}:{q}:{d}", f"the (data, has_value) result of {d} is used without testing has_value: missing offloaded bytes would be deserialised as a different (empty) value", mod.rel, c.lineno)
    gvd = db.func("RedunBackendDb._get_value_data")
    rets = [src(r.value) for r in ast.walk(gvd) if isinstance(r, ast.Return)]
    ok = "(value_row.value, True)" in rets and "self.value_store.get(value_row.value_hash)" in rets
    r2.check(ok, f"{db.rel}:RedunBackendDb._get_value_data:returns", f"_get_value_data does not return (row data, True) or the store's (data, has_value) pair ({rets})", db.rel, gvd.lineno)
    if n < 1:
        raise AnalysisError("no caller of _get_value_data found", "RedunBackendDb._get_value_data")

    r3 = ctx.rule("C31.3", "placeholder convention agrees between writer and reader; hash from the real bytes", floor=3)
    put = next(c for c in calls_in(rv, shallow=True) if (call_name(c) or "").endswith("value_store.put"))
    blk = db.parent.get(db.parent.get(put))  # Expr -> If
    ok = isinstance(blk, ast.If) and any(isinstance(b, ast.Assign) and src(b.targets[0]) == "data" and src(b.value) == "b''" for b in blk.body) and src(put.args[1]) == "data" and src(put.args[0]) == "value_hash"
    others = [x for x in ast.walk(rv) if isinstance(x, ast.Assign) and src(x.targets[0]) == "data" and src(x.value) == "b''" and not any(x is b for b in getattr(blk, "body", []))]
    r3.check(bool(ok) and not others, f"{db.rel}:RedunBackendDb.record_value:placeholder", "the empty placeholder is not substituted exactly where (and only where) the bytes were put into the value store under the value's hash", db.rel, put.lineno)
    hs = [x for x in ast.walk(rv) if isinstance(x, ast.Assign) and src(x.targets[0]) == "value_hash"]
    ok = len(hs) == 1 and "get_hash(data=data)" in src(hs[0].value) and hs[0].lineno < put.lineno
    r3.check(ok, f"{db.rel}:RedunBackendDb.record_value:hash-before-placeholder", "the value hash is not computed from the real data before the placeholder substitution", db.rel, rv.lineno)
    ivs = db.func("Value.in_value_store")
    ok = any(isinstance(r, ast.Return) and src(r.value) == "len(self.value) == 0" for r in ast.walk(ivs))
    r3.check(ok, f"{db.rel}:Value.in_value_store", "the reader's placeholder test is not `len(value) == 0`", db.rel, ivs.lineno)
    c3 = CFG(gvd)
    ok = False
    for nn in c3.nodes:
        if nn.kind == "stmt" and isinstance(nn.ast, ast.Return) and "value_store.get" in src(nn.ast):
            ok = ("value_row.in_value_store", True) in facts_at(c3, nn)
    r3.check(ok, f"{db.rel}:RedunBackendDb._get_value_data:fallback", "the value store is consulted for rows that are not placeholders", db.rel, gvd.lineno)

    # ---- C31.5: a successful record_value always leaves the bytes readable ----
    r5 = ctx.rule("C31.5", "every successful return of record_value is preceded by the offload decision (re-recording repairs lost bytes)", floor=1)
    crv = CFG(rv)
    pnode = crv.node_of(put)
    tnode = next((n for n in crv.nodes if n.kind == "test" and isinstance(n.ast, ast.expr) and "value_store" in src(n.ast) and any(pnode in crv.reachable(e) for e in crv.edge_nodes(n, "T"))), None)
    if tnode is None:
        raise AnalysisError("record_value: offload test guarding value_store.put not found", "RedunBackendDb.record_value")
    hash_assign = next((n for n in crv.nodes if n.kind == "stmt" and isinstance(n.ast, ast.Assign) and src(n.ast.targets[0]) == "value_hash"), None)
    rets = [n for n in crv.nodes if n.kind == "stmt" and isinstance(n.ast, ast.Return) and n.ast.value is not None and src(n.ast.value) == "value_hash"]
    if not rets or hash_assign is None:
        raise AnalysisError("record_value: `return value_hash` not found", "RedunBackendDb.record_value")
    for rn in rets:
        r5.check(
            crv.dominates(tnode, rn),
            f"{db.rel}:RedunBackendDb.record_value:return@{'existing-row' if any('value_row' in f for f, t in facts_at(crv, rn) if t) else 'new-row'}",
            f"`return value_hash` at line {rn.lineno} can be reached without evaluating `{src(tnode.ast)[:70]}`: for a value whose row exists but whose offloaded bytes were lost, "
            "record_value reports success although value_store.put was skipped, so the value it just recorded reads back as absent (and stays absent on every re-run)",
            db.rel,
            rn.lineno,
        )

    r4 = ctx.rule("C31.4", "missing bytes read as absent", floor=3)
    vs = repo.mod("redun/backends/value_store.py")
    g = vs.func("ValueStore.get")
    ok = any(isinstance(t, ast.Try) and any(src(h.type) == "FileNotFoundError" and any(isinstance(b, ast.Return) and src(b.value) == "(b'', False)" for b in h.body) for h in t.handlers) for t in ast.walk(g)) and "infile.read(), True" in src(g)
    r4.check(ok, f"{vs.rel}:ValueStore.get", "a missing store file is not reported as (b'', False)", vs.rel, g.lineno)
    vm = repo.mod("redun/value.py")
    fd = vm.func("FileCache.deserialize")
    c4 = CFG(fd)
    ok = any(nn.kind == "stmt" and isinstance(nn.ast, ast.Raise) and "InvalidValueError" in src(nn.ast) and ("file.exists()", False) in facts_at(c4, nn) for nn in c4.nodes)
    r4.check(ok, f"{vm.rel}:FileCache.deserialize", "a missing cache file does not raise InvalidValueError", vm.rel, fd.lineno)
    dv = db.func("RedunBackendDb._deserialize_value")
    ok = any(isinstance(t, ast.Try) and any("InvalidValueError" in src(h.type) and any(isinstance(b, ast.Return) and src(b.value) == "(None, False)" for b in h.body) for h in t.handlers) for t in ast.walk(dv))
    r4.check(ok, f"{db.rel}:RedunBackendDb._deserialize_value", "InvalidValueError is not mapped to (None, False)", db.rel, dv.lineno)
    pv = vs.func("ValueStore.put")
    ok = "self.get_value_path(value_hash)" in src(pv) and "out.write(data)" in src(pv) and "self.get_value_path(value_hash)" in src(g)
    r4.check(ok, f"{vs.rel}:ValueStore:path", "put and get do not address the same path for a hash", vs.rel, pv.lineno)
    # put(): an early "already stored" return must compare the stored bytes (their size at least) with the bytes being written -- the mere existence of the
    # file is also what an interrupted or still running writer leaves behind, and record_value commits the placeholder row right after put() returns.
    pcfg = CFG(pv)
    for nn in pcfg.nodes:
        if nn.kind == "stmt" and isinstance(nn.ast, ast.Return) and nn.ast.value is None:
            facts = facts_at(pcfg, nn)
            compares_data = any(t and "data" in [x.id for x in ast.walk(ast.parse(f, mode="eval")) if isinstance(x, ast.Name)] for f, t in facts)
            r4.check(
                compares_data,
                f"{vs.rel}:ValueStore.put:skip-on-existence",
                f"put() returns without writing when `{'; '.join(f for f, t in sorted(facts) if t)}`: a partial file at that path (crashed or concurrent writer) is taken for the value, the placeholder row is "
                "committed, and the value then reads back as an unpickling error or as different bytes instead of the recorded value",
                vs.rel,
                nn.lineno,
            )
    # readers of a placeholder row without a configured store: absent, not an exception
    for q, absent in (("RedunBackendDb._get_value_data", "(b'', False)"), ("RedunBackendDb._get_value_size", "-1")):
        fn = db.func(q)
        raises = [n for n in ast.walk(fn) if isinstance(n, ast.Raise)]
        rets = [src(r.value) for r in ast.walk(fn) if isinstance(r, ast.Return) and r.value is not None]
        r4.check(
            not raises and absent in rets,
            f"{db.rel}:{q}:no-store",
            f"{q} raises (line {raises[0].lineno if raises else '?'}) for a placeholder row when no value store is configured: a database shared with a writer that offloads values makes get_value/check_cache "
            "fail with AssertionError instead of reading the value as absent",
            db.rel,
            fn.lineno,
        )
    # ---- C31.6 content-addressed cache files are (re)written whenever the value is recorded ----
    r6 = ctx.rule("C31.6", "FileCache.serialize writes the cache file unconditionally (existence is not evidence of content)", floor=1)
    from ..filerules import existence_gated_writes

    fs = vm.func("FileCache.serialize")
    writes = [c for c in calls_in(fs) if isinstance(c.func, ast.Attribute) and c.func.attr == "write"]
    if not writes:
        raise AnalysisError("FileCache.serialize no longer writes the cache file", "FileCache.serialize")
    gated = existence_gated_writes(vm, fs)
    r6.check(
        not gated,
        f"{vm.rel}:FileCache.serialize:write-gated-by-existence",
        f"FileCache.serialize writes the cache file only when `{gated[0][1] if gated else ''}` is false: a partial file left by an interrupted write under that (content-hash) name is kept, every later "
        "record_value of the same value succeeds without repairing it, and reading the value back raises an unpickling error instead of returning the recorded value",
        vm.rel,
        gated[0][0].lineno if gated else fs.lineno,
    )


def _after_negative_return(cfg, call, hv: str) -> bool:
    """`if not has_value: return ...` earlier in the function dominates the use."""
    node = cfg.node_of(call)
    for f, t in facts_at(cfg, node):
        if f == hv and t:
            return True
    return False
