"""C32 -- the remote job protocol (structural clauses).

Array scratch specs are built by iterating one job sequence in one order, the
oneshot entry point indexes every spec with the one array index, and job
reuniting is keyed by the evaluation hash only.  Equality of remote and local
results is not decided.
"""

from __future__ import annotations

import ast
import re

from ..cfg import CFG
from ..core import AnalysisError, call_name, calls_in, const_str, kwarg, last_attr, names_in, src

EXPLANATION = (
    "C32.1 aligned arrays: write_array_job_scratch_files builds args, kwargs, output paths, error paths and eval hashes by iterating the same "
    "`jobs` parameter in order, with no filter/sort on any of them; C32.2 one index: in oneshot_command every subscript into an array spec "
    "(error files, output files, task args, task kwargs) uses the variable whose only definitions are the -1 initialiser and get_job_array_index(); "
    "the specs are indexed only under args.array_job; C32.3 reunite key: preexisting_batch_jobs is keyed only by get_hash_from_job_name(...) or lines of "
    "the eval-hash file and consulted only with job.eval_hash; get_batch_job_name separates with '-' and the parse regex captures the last "
    "dash-free component (regex AST); C32.4 per-job scratch paths are functions of job.eval_hash; results/errors are read from the paths written. C32.5 in oneshot_command every path that reaches the call of the task function with an output path set passes output_file.remove(): executors judge success by the presence of the output file, so a stale one must not survive a re-execution that raises."
    " C32.6 the four sites that decide `may a previous remote result be reused` agree on `cache scope == BACKEND`: get_oneshot_command's flag expression is evaluated for every CacheScope member (--no-cache for all but BACKEND), every production caller of get_oneshot_command passes job_options, oneshot returns an existing output only under `not args.no_cache`, and every executor's preexisting-job lookup is conjoined with `CacheScope(<options>.get('cache_scope', BACKEND)) == BACKEND`."
)

SCR = "redun/executors/scratch.py"
CLI = "redun/cli.py"
AB = "redun/executors/aws_batch.py"


def run(ctx):
    repo = ctx.repo
    sm = repo.mod(SCR)
    cli = repo.mod(CLI)
    ab = repo.mod(AB)

    r1 = ctx.rule("C32.1", "array specs are aligned: all built from the same job sequence in order", floor=4)
    wf = sm.func("write_array_job_scratch_files")
    jp = wf.args.args[0].arg
    iters = []
    for n in ast.walk(wf):
        if isinstance(n, ast.For):
            iters.append((src(n.iter), [], n.lineno, "for"))
        elif isinstance(n, (ast.ListComp, ast.GeneratorExp)):
            g = n.generators[0]
            iters.append((src(g.iter), [src(i) for i in g.ifs], n.lineno, "comp"))
    built = [i for i in iters]
    ok = len(built) >= 4 and all(it == jp and not ifs for it, ifs, _, _ in built)
    r1.check(ok, f"{sm.rel}:write_array_job_scratch_files:iteration", f"the per-job specs are not all built by iterating `{jp}` unfiltered and in order: {[(a, b) for a, b, _, _ in built]}", sm.rel, wf.lineno)
    t = src(wf)
    ok = "all_args.append(job.args[0])" in t and "all_kwargs.append(job.args[1])" in t and "pickle_dump([all_args, all_kwargs], out)" in t
    r1.check(ok, f"{sm.rel}:write_array_job_scratch_files:input", "the input spec is not [args of every job, kwargs of every job]", sm.rel, wf.lineno)
    ok = "get_job_scratch_file(scratch_prefix, job, SCRATCH_OUTPUT) for job in jobs" in t and "get_job_scratch_file(scratch_prefix, job, SCRATCH_ERROR) for job in jobs" in t
    r1.check(ok, f"{sm.rel}:write_array_job_scratch_files:paths", "output/error specs are not each job's own scratch paths", sm.rel, wf.lineno)
    ok = "job.eval_hash" in t and "'\\n'.join(" in t
    r1.check(ok, f"{sm.rel}:write_array_job_scratch_files:eval-hashes", "the eval-hash file does not list every job's eval_hash, one per line, in order", sm.rel, wf.lineno)
    mutate = [c for c in calls_in(wf) if last_attr(c) in ("sort", "reverse", "sorted", "shuffle") or call_name(c) in ("sorted", "reversed")]
    r1.check(not mutate, f"{sm.rel}:write_array_job_scratch_files:no-reorder", f"a spec is reordered: {[src(c) for c in mutate]}", sm.rel, wf.lineno)

    r2 = ctx.rule("C32.2", "every array spec is indexed with the one array index, only in array mode", floor=4)
    oc = cli.func("RedunClient.oneshot_command")
    idxvar = None
    for n in ast.walk(oc):
        if isinstance(n, ast.Assign) and isinstance(n.value, ast.Call) and call_name(n.value) == "get_job_array_index":
            src_var = src(n.targets[0])
            # index = get_job_array_index(); array_job_index = index
            for n2 in ast.walk(oc):
                if isinstance(n2, ast.Assign) and src(n2.value) == src_var:
                    idxvar = src(n2.targets[0])
            idxvar = idxvar or src_var
    if idxvar is None:
        raise AnalysisError("oneshot_command: get_job_array_index() not found", "RedunClient.oneshot_command")
    defs = [n for n in ast.walk(oc) if isinstance(n, (ast.Assign, ast.AnnAssign)) and src(n.targets[0] if isinstance(n, ast.Assign) else n.target) == idxvar]
    ok = all((isinstance(d.value, ast.UnaryOp) or isinstance(d.value, ast.Constant) or isinstance(d.value, ast.Name)) for d in defs) and len(defs) == 2
    r2.check(ok, f"{cli.rel}:RedunClient.oneshot_command:index-defs", f"`{idxvar}` has definitions other than the initialiser and the array index from the environment", cli.rel, oc.lineno)
    # array specs: locals loaded from a JSON spec file (one path per array element) and the pickled argument lists.  Identified by how they are
    # defined, not by their names.
    spec_vars: dict[str, str] = {}
    for n in ast.walk(oc):
        if isinstance(n, ast.Assign) and len(n.targets) == 1:
            t0 = n.targets[0]
            if isinstance(t0, ast.Name) and isinstance(n.value, ast.Call) and call_name(n.value) == "json.load":
                spec_vars[t0.id] = "json spec"
            elif isinstance(t0, ast.Tuple) and isinstance(n.value, ast.Call) and call_name(n.value) in ("pickle.load", "pickle_load"):
                for e in t0.elts:
                    if isinstance(e, ast.Name):
                        spec_vars[e.id] = "pickled arguments"
    if sum(1 for v in spec_vars.values() if v == "pickled arguments") < 2 or not any(v == "json spec" for v in spec_vars.values()):
        raise AnalysisError(f"oneshot_command: array specs not recognised (found {spec_vars})", "RedunClient.oneshot_command")
    from ..cfg import facts_at as _fa

    ocfg = CFG(oc)
    nsub = 0
    for n in ast.walk(oc):
        if isinstance(n, ast.Subscript) and isinstance(n.ctx, ast.Load) and isinstance(n.value, ast.Name) and n.value.id in spec_vars:
            nsub += 1
            name = n.value.id
            stmt = n
            while not isinstance(stmt, ast.stmt):
                stmt = cli.parent.get(stmt)
            key = f"{name}@{'error' if 'error' in src(stmt) else 'output' if 'output' in src(stmt) else 'input'}"
            r2.check(src(n.slice) == idxvar, f"{cli.rel}:RedunClient.oneshot_command:{key}[index]", f"`{src(n)}`: the {spec_vars[name]} `{name}` is not indexed by `{idxvar}`", cli.rel, n.lineno)
            guarded = ("args.array_job", True) in _fa(ocfg, ocfg.node_of(stmt))
            r2.check(guarded, f"{cli.rel}:RedunClient.oneshot_command:{key}:array-mode", f"`{src(n)}` is evaluated outside `if args.array_job`", cli.rel, n.lineno)
    if nsub < 4:
        r2.violation(f"{cli.rel}:RedunClient.oneshot_command:specs-indexed", f"only {nsub} of the array specs (error paths, output paths, args, kwargs) are indexed by the array index", cli.rel, oc.lineno)
    ok = any(isinstance(n, ast.If) and src(n.test) == "index is None" and any(isinstance(b, ast.Raise) for b in n.body) for n in ast.walk(oc))
    r2.check(ok, f"{cli.rel}:RedunClient.oneshot_command:missing-index", "a missing array index is not rejected", cli.rel, oc.lineno)

    r3 = ctx.rule("C32.3", "reuniting is keyed by the evaluation hash only", floor=4)
    nkeys = 0
    for n in ast.walk(ab.tree):
        if isinstance(n, ast.Assign):
            for t in n.targets:
                if isinstance(t, ast.Subscript) and src(t.value) == "self.preexisting_batch_jobs":
                    nkeys += 1
                    k = src(t.slice)
                    fn = ab.enclosing_func(n)
                    kdefs = [a for a in ast.walk(fn) if isinstance(a, ast.Assign) and src(a.targets[0]) == k]
                    ok = bool(kdefs) and all("get_hash_from_job_name(" in src(a.value) or "eval_hashes[" in src(a.value) for a in kdefs)
                    r3.check(ok, f"{ab.rel}:{ab.enclosing_qual(n)}:preexisting[{k}]", f"an in-flight job is registered under `{k}`, which is not the eval hash parsed from the job name / eval-hash file", ab.rel, n.lineno)
    if nkeys < 2:
        raise AnalysisError("preexisting_batch_jobs registrations not found", AB)
    uses = [n for n in ast.walk(ab.tree) if isinstance(n, (ast.Compare, ast.Call)) and "self.preexisting_batch_jobs" in src(n) and isinstance(n, ast.Compare)]
    pops = [c for c in calls_in(ab.tree) if call_name(c) == "self.preexisting_batch_jobs.pop"]
    ok = bool(uses) and all(src(u.left) == "job.eval_hash" for u in uses) and bool(pops) and all(src(c.args[0]) == "job.eval_hash" for c in pops)
    r3.check(ok, f"{ab.rel}:AWSBatchExecutor:reunite-lookup", "the in-flight table is not consulted (and consumed) with job.eval_hash only", ab.rel, 0)
    gn = ab.func("get_batch_job_name")
    fmt = next((c for c in calls_in(gn) if last_attr(c) == "format" and isinstance(c.func.value, ast.Constant)), None)
    ok = fmt is not None and fmt.func.value.value.startswith("{}-{}")
    r3.check(ok, f"{ab.rel}:get_batch_job_name", "job names are not '<prefix>-<eval hash>[suffix]'", ab.rel, gn.lineno)
    gh = ab.func("get_hash_from_job_name")
    pats = [const_str(c.args[0]) for c in calls_in(gh) if call_name(c) in ("re.match", "re.search", "re.fullmatch") and c.args]
    ok = False
    for p in pats:
        if not p:
            continue
        tree = re._parser.parse(p)
        # last element: named/anonymous group consisting of a repeated negated set excluding '-', preceded by literal '-'
        items = list(tree)
        if len(items) >= 2 and items[-1][0] == re._constants.SUBPATTERN and items[-2] == (re._constants.LITERAL, ord("-")):
            sub = list(items[-1][1][3])
            if len(sub) == 1 and sub[0][0] == re._constants.MAX_REPEAT:
                lo, hi, body = sub[0][1]
                body = list(body)
                if lo >= 1 and len(body) == 1 and body[0][0] == re._constants.IN:
                    inner = body[0][1]
                    ok = inner[0][0] == re._constants.NEGATE and (re._constants.LITERAL, ord("-")) in inner
                elif lo >= 1 and len(body) == 1 and body[0] == (re._constants.NOT_LITERAL, ord("-")):
                    ok = True  # [^-]+ is compiled to a repeated NOT_LITERAL
                # greedy .* before the dash makes it the LAST dash
                ok = ok and items[0][0] == re._constants.MAX_REPEAT and list(items[0][1][2]) == [(re._constants.ANY, None)]
    r3.check(ok, f"{ab.rel}:get_hash_from_job_name:regex", f"the parse pattern {pats} does not capture the last dash-free component after a dash", ab.rel, gh.lineno)
    ok = "job_name.endswith(array_suffix)" in src(gh) and "job_name[:-len(array_suffix)]" in src(gh)
    r3.check(ok, f"{ab.rel}:get_hash_from_job_name:array-suffix", "the array suffix is not stripped before parsing", ab.rel, gh.lineno)

    r4 = ctx.rule("C32.4", "scratch paths are functions of the evaluation hash; readers read what writers wrote", floor=3)
    for q in ("get_job_scratch_dir", "get_job_scratch_file"):
        fn = sm.func(q)
        rets = [src(r.value) for r in ast.walk(fn) if isinstance(r, ast.Return)]
        ok = len(rets) == 1 and "job.eval_hash" in rets[0] and "'jobs'" in rets[0] and "job.id" not in rets[0]
        r4.check(ok, f"{sm.rel}:{q}", "a job's scratch location is not derived from its eval_hash", sm.rel, fn.lineno)
    pr = sm.func("parse_job_result")
    ok = "get_job_scratch_file(scratch_prefix, job, SCRATCH_OUTPUT)" in src(pr) and "pickle.load(infile)" in src(pr)
    r4.check(ok, f"{sm.rel}:parse_job_result", "results are not read from the job's own output path", sm.rel, pr.lineno)
    pe = sm.func("parse_job_error")
    ok = "get_job_scratch_file(scratch_prefix, job, SCRATCH_ERROR)" in src(pe)
    r4.check(ok, f"{sm.rel}:parse_job_error", "errors are not read from the job's own error path", sm.rel, pe.lineno)

    # ---- C32.5 no stale output survives a re-execution -------------------------------------
    # Executors judge a finished remote job by the presence of its output file (docker.iter_job_status, batch status override), so when oneshot
    # is about to run the task function, any previous output at the same eval_hash path must have been removed on every path.
    r5 = ctx.rule("C32.5", "oneshot removes a previous output file on every path that re-executes the task", floor=1)
    cm5 = repo.mod("redun/cli.py")
    one = cm5.func("RedunClient.oneshot_command")
    c5 = CFG(one)
    runs = [c for c in calls_in(one) if src(c.func) in ("task.func", "task") and any(isinstance(a, ast.Starred) for a in c.args)]
    if not runs:
        raise AnalysisError("oneshot_command: call of the task function not found", "RedunClient.oneshot_command")
    removes = [c5.node_of(c) for c in calls_in(one) if last_attr(c) == "remove" and isinstance(c.func, ast.Attribute) and "output" in src(c.func.value)]
    # the output file is only written when an output path was given: paths on which `output_path` is falsy need no removal
    no_output = []
    for t in c5.nodes:
        if t.kind == "test" and isinstance(t.ast, ast.expr) and src(t.ast) == "output_path":
            no_output += c5.edge_nodes(t, "F")
    for rc in runs:
        node = c5.node_of(rc)
        ok = bool(removes) and c5.must_pass(c5.entry, set(removes) | set(no_output), targets=[node])
        r5.check(
            ok,
            f"{cm5.rel}:RedunClient.oneshot_command:remove-before-run",
            f"`{src(rc)[:50]}` (line {rc.lineno}) can be reached with an output path set but without removing the previous output file: if this execution raises, the error "
            "file is written next to the stale output, and executors that test for the output file (docker.iter_job_status, the batch failure override) report the old result as success",
            cm5.rel,
            rc.lineno,
        )

    # ---- C32.6 a previous scratch output is reused only for cache scope BACKEND --------------
    r6 = ctx.rule("C32.6", "stale scratch output is reused only when the job's cache scope is BACKEND (flag, callers, oneshot, reunite guards agree)", floor=8)
    cmdm = repo.mod("redun/executors/command.py")
    goc = cmdm.func("get_oneshot_command")
    members = [t.id for n in repo.mod("redun/task.py").cls("CacheScope").body if isinstance(n, ast.Assign) for t in n.targets if isinstance(t, ast.Name)]
    if "BACKEND" not in members or len(members) < 3:
        raise AnalysisError(f"CacheScope members {members}", "CacheScope")
    scope_names = {"__scope__"}
    for a in ast.walk(goc):
        if isinstance(a, ast.Assign) and _is_scope_expr(a.value) and isinstance(a.targets[0], ast.Name):
            scope_names.add(a.targets[0].id)
    flag_defs = [a for a in ast.walk(goc) if isinstance(a, ast.Assign) and any("--no-cache" == c.value for c in ast.walk(a.value) if isinstance(c, ast.Constant))]
    if len(flag_defs) != 1:
        raise AnalysisError(f"get_oneshot_command: {len(flag_defs)} assignments mention '--no-cache' (expected 1)", "get_oneshot_command")
    for mem in members:
        val = _eval_scope(flag_defs[0].value, mem, scope_names)
        if val is None:
            raise AnalysisError(f"get_oneshot_command: cannot evaluate `{src(flag_defs[0].value)[:80]}` for cache scope {mem}", "get_oneshot_command")
        has = any(isinstance(c, ast.Constant) and c.value == "--no-cache" for c in ast.walk(val))
        if mem != "BACKEND":
            r6.check(
                has,
                f"{cmdm.rel}:get_oneshot_command:no-cache[{mem}]",
                f"for cache scope {mem} the remote command carries no --no-cache: `redun oneshot` then returns a pickled output left under the same eval hash by an earlier run "
                "instead of calling the task, although the scheduler was told not to reuse results from other executions",
                cmdm.rel,
                flag_defs[0].lineno,
            )
        else:
            r6.good(f"{cmdm.rel}:get_oneshot_command:no-cache[{mem}]", "reuse allowed")
    params = [a.arg for a in goc.args.args]
    jo_i = params.index("job_options")
    for mod, c in repo.all_calls(lambda c: last_attr(c) == "get_oneshot_command"):
        if mod.rel.startswith("redun/tests"):
            continue
        v = c.args[jo_i] if len(c.args) > jo_i else kwarg(c, "job_options")
        q = mod.enclosing_qual(c)
        r6.check(
            v is not None and not (isinstance(v, ast.Dict) and not v.keys),
            f"{mod.rel}:{q}:get_oneshot_command:job_options",
            f"{q} builds the remote command without the job's options: the cache scope defaults to BACKEND, --no-cache is never passed, and a job that must not reuse "
            "earlier results (cache=False) gets the stale output of an earlier run from its scratch directory",
            mod.rel,
            c.lineno,
        )
    # oneshot: existing output returned only without --no-cache
    one6 = repo.mod("redun/cli.py").func("RedunClient.oneshot_command")
    c6 = CFG(one6)
    from ..cfg import facts_at as _facts_at

    loads = [n for n in c6.nodes if n.kind == "stmt" and isinstance(n.ast, ast.Return) and n.ast.value is not None and src(n.ast.value) == "result" and any(f == "output_file.exists()" and t for f, t in _facts_at(c6, n))]
    if not loads:
        raise AnalysisError("oneshot_command: `return result` under output_file.exists() not found", "RedunClient.oneshot_command")
    for n in loads:
        r6.check(("args.no_cache", False) in _facts_at(c6, n), f"redun/cli.py:RedunClient.oneshot_command:existing-output", "an existing output file is returned even under --no-cache", "redun/cli.py", n.lineno)
    # executors: reunite with an in-flight job / its output only for BACKEND
    nre = 0
    for mod in repo.modules.values():
        if not mod.rel.startswith("redun/executors/"):
            continue
        for qn, fn in mod.funcs.items():
            cf = None
            for t in ast.walk(fn):
                if isinstance(t, ast.Compare) and len(t.ops) == 1 and isinstance(t.ops[0], ast.In) and src(t.left) == "job.eval_hash" and src(t.comparators[0]).startswith("self.preexisting_") and mod.enclosing_func(t) is fn:
                    nre += 1
                    cf = cf or CFG(fn)
                    p = mod.parent.get(t)
                    conj = [src(v) for v in p.values] if isinstance(p, ast.BoolOp) and isinstance(p.op, ast.And) else [src(t)]
                    sc = [x for x in conj if x.endswith("== CacheScope.BACKEND")]
                    ok = False
                    if sc:
                        var = sc[0].split(" ==")[0]
                        defs = [a for a in ast.walk(fn) if isinstance(a, ast.Assign) and src(a.targets[0]) == var]
                        ok = len(defs) == 1 and _is_scope_expr(defs[0].value, ("task_options", "job_options"))
                    r6.check(ok, f"{mod.rel}:{qn}:reunite-scope", f"`{src(t)}` is consulted without `<job's cache_scope> == CacheScope.BACKEND`: a job that must not reuse results is reunited with an earlier remote job", mod.rel, t.lineno)
    if nre < 4:
        raise AnalysisError(f"only {nre} reunite lookups found in executors (expected >= 4)", "preexisting_")
    # ---- C32.7 array reuniting indexes the eval-hash file with the remote element's own index ----
    r7 = ctx.rule("C32.7", "eval_hashes[...] is indexed by the remote array element's own index, never by its position in an API listing", floor=3)
    nidx = 0
    for mod in repo.modules.values():
        if not mod.rel.startswith("redun/executors/"):
            continue
        for qn, fn in mod.funcs.items():
            for sub in ast.walk(fn):
                if not (isinstance(sub, ast.Subscript) and src(sub.value) == "eval_hashes" and isinstance(sub.ctx, ast.Load) and mod.enclosing_func(sub) is fn):
                    continue
                nidx += 1
                idx = src(sub.slice)
                positional = None
                how = ""
                # every definition of the index: a loop target bound to an element (fine unless it is enumerate's counter), or an expression over the element only
                loops = [lp for lp in ast.walk(fn) if isinstance(lp, (ast.For, ast.comprehension))]
                elem_names = set()
                for lp in loops:
                    tn = [x.id for x in ast.walk(lp.target) if isinstance(x, ast.Name)]
                    is_enum = isinstance(lp.iter, ast.Call) and call_name(lp.iter) == "enumerate"
                    counter = src(lp.target.elts[0]) if is_enum and isinstance(lp.target, ast.Tuple) and lp.target.elts else None
                    elem_names |= {n for n in tn if n != counter}
                    if counter == idx:
                        positional, how = lp, f"the position of the element in `{src(lp.iter)[:60]}`"
                assigns = [a for a in ast.walk(fn) if isinstance(a, ast.Assign) and any(src(t) == idx for t in a.targets) and a.lineno < sub.lineno]
                if assigns:
                    positional = None
                    for a in assigns:
                        free = {x.id for x in ast.walk(a.value) if isinstance(x, ast.Name)} - {"int", "str", "cast"}
                        listing_calls = [c for c in ast.walk(a.value) if isinstance(c, ast.Call) and ((isinstance(c.func, ast.Attribute) and c.func.attr in ("index", "count")) or call_name(c) in ("enumerate", "len", "range"))]
                        if listing_calls or not free <= elem_names:
                            positional, how = a, f"`{src(a.value)[:60]}`, which is not a function of the remote element alone"
                r7.check(
                    positional is None,
                    f"{mod.rel}:{qn}:eval_hashes[{idx}]",
                    f"`eval_hashes[{idx}]` uses {how} as its array index: the listing order of remote tasks is not the "
                    "submission order (e.g. sorted by name: 0, 1, 10, 2, ...), so an in-flight task is paired with the evaluation hash of a different array element and a job is reunited with a remote job "
                    "created for another evaluation",
                    mod.rel,
                    sub.lineno,
                )
    if nidx < 3:
        raise AnalysisError(f"only {nidx} eval_hashes[...] lookups found in executors (expected >= 3)", "eval_hashes")
    # ---- C32.8 a failed oneshot leaves no output file -------------------------------------------
    # Executors judge a non-script job by the presence of its output file (docker.iter_job_status: `succeeded = output_file.exists()`; the AWS Batch
    # failure override).  C32.5 covers the path that reaches the task function; a failure *before* that point (import, task lookup, input
    # unpickling) also ends in the handler that writes the error file -- the handler must remove the output, or the stale one is reported as success.
    r8 = ctx.rule("C32.8", "oneshot's error handler removes the output file before re-raising", floor=1)
    one8 = repo.mod("redun/cli.py").func("RedunClient.oneshot_command")
    c8 = CFG(one8)
    tries = [t for t in ast.walk(one8) if isinstance(t, ast.Try) and any(isinstance(h.type, ast.Name) and h.type.id == "Exception" for h in t.handlers)]
    if not tries:
        raise AnalysisError("oneshot_command: try/except Exception not found", "RedunClient.oneshot_command")
    top = max(tries, key=lambda t: (t.end_lineno or 0) - t.lineno)
    for h in top.handlers:
        raises = [c8.node_of(r) for r in ast.walk(h) if isinstance(r, ast.Raise)]
        removes = [c8.node_of(c) for c in ast.walk(h) if isinstance(c, ast.Call) and last_attr(c) == "remove" and "output" in src(c.func.value)]
        no_output = []
        for t in c8.nodes:
            if t.kind == "test" and isinstance(t.ast, ast.expr) and src(t.ast) == "output_path" and any(t.ast is x for x in ast.walk(h)):
                no_output += c8.edge_nodes(t, "F")
        hentry = next((n for n in c8.nodes if n.kind == "handler" and n.ast is h), None)
        ok = bool(raises) and bool(removes) and hentry is not None and all(c8.must_pass(hentry, set(removes) | set(no_output), targets=[r]) for r in raises)
        r8.check(
            ok,
            f"redun/cli.py:RedunClient.oneshot_command:handler-removes-output",
            "the `except Exception` handler of oneshot_command writes the error file and re-raises without removing the job's output file: when the failure happens before the task function is "
            "reached (broken import in the image, unknown task, unreadable input) an output left under the same eval hash by an earlier run stays, docker.iter_job_status sees `output exists` and the "
            "failed job is reported done with the stale value",
            "redun/cli.py",
            h.lineno,
        )
    # ---- C32.10 user data is unpickled only after the user's code has been imported ------------------------------
    # Inputs, and an existing output, may hold instances of classes defined in the workflow module.  Locally those classes are importable by
    # construction; in the fresh remote process they are only after oneshot has extracted the code package and imported the script.
    r10 = ctx.rule("C32.10", "every pickle.load in oneshot_command is dominated by import_script(args.script)", floor=2)
    imps = [c8.node_of(c) for c in calls_in(one8, shallow=True) if (call_name(c) or "").split(".")[-1] == "import_script"]
    if not imps:
        raise AnalysisError("oneshot_command no longer calls import_script", "RedunClient.oneshot_command")
    for c in calls_in(one8, shallow=True):
        if call_name(c) in ("pickle.load", "pickle.loads", "pickle_loads", "pickle_load"):
            r10.check(
                any(c8.dominates(i, c8.node_of(c)) for i in imps),
                f"redun/cli.py:RedunClient.oneshot_command:unpickle-after-import:{src(c)[:40]}",
                f"`{src(c)}` can run before import_script(args.script): in a fresh remote process a value whose class is defined in the workflow module cannot be unpickled yet "
                "(ModuleNotFoundError), the handler writes an error file and deletes the valid output -- a retried job fails where a local call returns the value",
                "redun/cli.py",
                c.lineno,
            )
    # ---- C32.9 (the obligations of C11.2, which this property depends on as well) ----
    from ..report import BorrowCtx
    from . import C11 as _borrowed_C11

    _borrowed_C11.run(BorrowCtx(ctx, {"C11.2": "C32.9"}))


def _is_scope_expr(e, holders=("job_options",)) -> bool:
    """CacheScope(<options>.get('cache_scope', CacheScope.BACKEND))"""
    return (
        isinstance(e, ast.Call)
        and call_name(e) == "CacheScope"
        and len(e.args) == 1
        and isinstance(e.args[0], ast.Call)
        and isinstance(e.args[0].func, ast.Attribute)
        and e.args[0].func.attr == "get"
        and src(e.args[0].func.value) in holders
        and len(e.args[0].args) == 2
        and const_str(e.args[0].args[0]) == "cache_scope"
        and src(e.args[0].args[1]) == "CacheScope.BACKEND"
    )


def _eval_scope(e, mem, scope_names):
    """Partially evaluate `e` knowing that the job's cache scope is CacheScope.<mem>.  Returns an AST (value) / True / False / None (unknown)."""

    def is_scope(x):
        return _is_scope_expr(x) or (isinstance(x, ast.Name) and x.id in scope_names)

    def member(x):
        return x.attr if isinstance(x, ast.Attribute) and src(x.value) == "CacheScope" else None

    def truth(t):
        if isinstance(t, ast.UnaryOp) and isinstance(t.op, ast.Not):
            v = truth(t.operand)
            return None if v is None else (not v)
        if isinstance(t, ast.BoolOp):
            vs = [truth(v) for v in t.values]
            if any(v is None for v in vs):
                return None
            return all(vs) if isinstance(t.op, ast.And) else any(vs)
        if isinstance(t, ast.Compare) and len(t.ops) == 1:
            l, r, op = t.left, t.comparators[0], t.ops[0]
            if is_scope(r) and not is_scope(l):
                l, r = r, l
            if not is_scope(l):
                return None
            if isinstance(op, (ast.Eq, ast.Is, ast.NotEq, ast.IsNot)):
                mm = member(r)
                if mm is None:
                    return None
                eq = mm == mem
                return eq if isinstance(op, (ast.Eq, ast.Is)) else (not eq)
            if isinstance(op, (ast.In, ast.NotIn)) and isinstance(r, (ast.Tuple, ast.List, ast.Set)):
                ms = [member(x) for x in r.elts]
                if any(x is None for x in ms):
                    return None
                return (mem in ms) if isinstance(op, ast.In) else (mem not in ms)
        return None

    if isinstance(e, ast.IfExp):
        v = truth(e.test)
        if v is None:
            return None
        return _eval_scope(e.body if v else e.orelse, mem, scope_names)
    if isinstance(e, (ast.List, ast.Tuple)):
        return e
    return None
