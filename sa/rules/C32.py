"""C32 -- the remote job protocol (structural clauses).

Array scratch specs are built by iterating one job sequence in one order, the
oneshot entry point indexes every spec with the one array index, and job
reuniting is keyed by the evaluation hash only.  Equality of remote and local
results is not decided.
"""

from __future__ import annotations

import ast
import re

from ..cfg import CFG
from ..core import AnalysisError, call_name, calls_in, const_str, kwarg, last_attr, names_in, src

EXPLANATION = (
    "C32.1 aligned arrays: write_array_job_scratch_files builds args, kwargs, output paths, error paths and eval hashes by iterating the same "
    "`jobs` parameter in order, with no filter/sort on any of them; C32.2 one index: in oneshot_command every subscript into an array spec "
    "(error files, output files, task args, task kwargs) uses the variable whose only definitions are the -1 initialiser and get_job_array_index(); "
    "the specs are indexed only under args.array_job; C32.3 reunite key: preexisting_batch_jobs is keyed only by get_hash_from_job_name(...) or lines of "
    "the eval-hash file and consulted only with job.eval_hash; get_batch_job_name separates with '-' and the parse regex captures the last "
    "dash-free component (regex AST); C32.4 per-job scratch paths are functions of job.eval_hash; results/errors are read from the paths written. C32.5 in oneshot_command every path that reaches the call of the task function with an output path set passes output_file.remove(): executors judge success by the presence of the output file, so a stale one must not survive a re-execution that raises."
)

SCR = "redun/executors/scratch.py"
CLI = "redun/cli.py"
AB = "redun/executors/aws_batch.py"


def run(ctx):
    repo = ctx.repo
    sm = repo.mod(SCR)
    cli = repo.mod(CLI)
    ab = repo.mod(AB)

    r1 = ctx.rule("C32.1", "array specs are aligned: all built from the same job sequence in order", floor=4)
    wf = sm.func("write_array_job_scratch_files")
    jp = wf.args.args[0].arg
    iters = []
    for n in ast.walk(wf):
        if isinstance(n, ast.For):
            iters.append((src(n.iter), [], n.lineno, "for"))
        elif isinstance(n, (ast.ListComp, ast.GeneratorExp)):
            g = n.generators[0]
            iters.append((src(g.iter), [src(i) for i in g.ifs], n.lineno, "comp"))
    built = [i for i in iters]
    ok = len(built) >= 4 and all(it == jp and not ifs for it, ifs, _, _ in built)
    r1.check(ok, f"{sm.rel}:write_array_job_scratch_files:iteration", f"the per-job specs are not all built by iterating `{jp}` unfiltered and in order: {[(a, b) for a, b, _, _ in built]}", sm.rel, wf.lineno)
    t = src(wf)
    ok = "all_args.append(job.args[0])" in t and "all_kwargs.append(job.args[1])" in t and "pickle_dump([all_args, all_kwargs], out)" in t
    r1.check(ok, f"{sm.rel}:write_array_job_scratch_files:input", "the input spec is not [args of every job, kwargs of every job]", sm.rel, wf.lineno)
    ok = "get_job_scratch_file(scratch_prefix, job, SCRATCH_OUTPUT) for job in jobs" in t and "get_job_scratch_file(scratch_prefix, job, SCRATCH_ERROR) for job in jobs" in t
    r1.check(ok, f"{sm.rel}:write_array_job_scratch_files:paths", "output/error specs are not each job's own scratch paths", sm.rel, wf.lineno)
    ok = "job.eval_hash" in t and "'\\n'.join(" in t
    r1.check(ok, f"{sm.rel}:write_array_job_scratch_files:eval-hashes", "the eval-hash file does not list every job's eval_hash, one per line, in order", sm.rel, wf.lineno)
    mutate = [c for c in calls_in(wf) if last_attr(c) in ("sort", "reverse", "sorted", "shuffle") or call_name(c) in ("sorted", "reversed")]
    r1.check(not mutate, f"{sm.rel}:write_array_job_scratch_files:no-reorder", f"a spec is reordered: {[src(c) for c in mutate]}", sm.rel, wf.lineno)

    r2 = ctx.rule("C32.2", "every array spec is indexed with the one array index, only in array mode", floor=4)
    oc = cli.func("RedunClient.oneshot_command")
    idxvar = None
    for n in ast.walk(oc):
        if isinstance(n, ast.Assign) and isinstance(n.value, ast.Call) and call_name(n.value) == "get_job_array_index":
            src_var = src(n.targets[0])
            # index = get_job_array_index(); array_job_index = index
            for n2 in ast.walk(oc):
                if isinstance(n2, ast.Assign) and src(n2.value) == src_var:
                    idxvar = src(n2.targets[0])
            idxvar = idxvar or src_var
    if idxvar is None:
        raise AnalysisError("oneshot_command: get_job_array_index() not found", "RedunClient.oneshot_command")
    defs = [n for n in ast.walk(oc) if isinstance(n, (ast.Assign, ast.AnnAssign)) and src(n.targets[0] if isinstance(n, ast.Assign) else n.target) == idxvar]
    ok = all((isinstance(d.value, ast.UnaryOp) or isinstance(d.value, ast.Constant) or isinstance(d.value, ast.Name)) for d in defs) and len(defs) == 2
    r2.check(ok, f"{cli.rel}:RedunClient.oneshot_command:index-defs", f"`{idxvar}` has definitions other than the initialiser and the array index from the environment", cli.rel, oc.lineno)
    specs = {}
    for n in ast.walk(oc):
        if isinstance(n, ast.Subscript) and isinstance(n.ctx, ast.Load) and isinstance(n.value, ast.Name) and n.value.id in ("efiles", "ofiles", "task_args", "task_kwargs"):
            specs.setdefault(n.value.id, []).append(n)
    for name in ("efiles", "ofiles", "task_args", "task_kwargs"):
        subs = specs.get(name, [])
        ok = len(subs) == 1 and src(subs[0].slice) == idxvar
        r2.check(ok, f"{cli.rel}:RedunClient.oneshot_command:{name}[index]", f"`{name}` is indexed by {[src(s.slice) for s in subs]} (expected once by `{idxvar}`)", cli.rel, subs[0].lineno if subs else oc.lineno)
        if subs:
            p = cli.parent.get(subs[0])
            guarded = False
            while p is not None and p is not oc:
                if isinstance(p, ast.If) and src(p.test) == "args.array_job":
                    guarded = True
                p = cli.parent.get(p)
            r2.check(guarded, f"{cli.rel}:RedunClient.oneshot_command:{name}:array-mode", f"`{name}` is indexed outside `if args.array_job`", cli.rel, subs[0].lineno)
    ok = any(isinstance(n, ast.If) and src(n.test) == "index is None" and any(isinstance(b, ast.Raise) for b in n.body) for n in ast.walk(oc))
    r2.check(ok, f"{cli.rel}:RedunClient.oneshot_command:missing-index", "a missing array index is not rejected", cli.rel, oc.lineno)

    r3 = ctx.rule("C32.3", "reuniting is keyed by the evaluation hash only", floor=4)
    nkeys = 0
    for n in ast.walk(ab.tree):
        if isinstance(n, ast.Assign):
            for t in n.targets:
                if isinstance(t, ast.Subscript) and src(t.value) == "self.preexisting_batch_jobs":
                    nkeys += 1
                    k = src(t.slice)
                    fn = ab.enclosing_func(n)
                    kdefs = [a for a in ast.walk(fn) if isinstance(a, ast.Assign) and src(a.targets[0]) == k]
                    ok = bool(kdefs) and all("get_hash_from_job_name(" in src(a.value) or "eval_hashes[" in src(a.value) for a in kdefs)
                    r3.check(ok, f"{ab.rel}:{ab.enclosing_qual(n)}:preexisting[{k}]", f"an in-flight job is registered under `{k}`, which is not the eval hash parsed from the job name / eval-hash file", ab.rel, n.lineno)
    if nkeys < 2:
        raise AnalysisError("preexisting_batch_jobs registrations not found", AB)
    uses = [n for n in ast.walk(ab.tree) if isinstance(n, (ast.Compare, ast.Call)) and "self.preexisting_batch_jobs" in src(n) and isinstance(n, ast.Compare)]
    pops = [c for c in calls_in(ab.tree) if call_name(c) == "self.preexisting_batch_jobs.pop"]
    ok = bool(uses) and all(src(u.left) == "job.eval_hash" for u in uses) and bool(pops) and all(src(c.args[0]) == "job.eval_hash" for c in pops)
    r3.check(ok, f"{ab.rel}:AWSBatchExecutor:reunite-lookup", "the in-flight table is not consulted (and consumed) with job.eval_hash only", ab.rel, 0)
    gn = ab.func("get_batch_job_name")
    fmt = next((c for c in calls_in(gn) if last_attr(c) == "format" and isinstance(c.func.value, ast.Constant)), None)
    ok = fmt is not None and fmt.func.value.value.startswith("{}-{}")
    r3.check(ok, f"{ab.rel}:get_batch_job_name", "job names are not '<prefix>-<eval hash>[suffix]'", ab.rel, gn.lineno)
    gh = ab.func("get_hash_from_job_name")
    pats = [const_str(c.args[0]) for c in calls_in(gh) if call_name(c) in ("re.match", "re.search", "re.fullmatch") and c.args]
    ok = False
    for p in pats:
        if not p:
            continue
        tree = re._parser.parse(p)
        # last element: named/anonymous group consisting of a repeated negated set excluding '-', preceded by literal '-'
        items = list(tree)
        if len(items) >= 2 and items[-1][0] == re._constants.SUBPATTERN and items[-2] == (re._constants.LITERAL, ord("-")):
            sub = list(items[-1][1][3])
            if len(sub) == 1 and sub[0][0] == re._constants.MAX_REPEAT:
                lo, hi, body = sub[0][1]
                body = list(body)
                if lo >= 1 and len(body) == 1 and body[0][0] == re._constants.IN:
                    inner = body[0][1]
                    ok = inner[0][0] == re._constants.NEGATE and (re._constants.LITERAL, ord("-")) in inner
                elif lo >= 1 and len(body) == 1 and body[0] == (re._constants.NOT_LITERAL, ord("-")):
                    ok = True  # [^-]+ is compiled to a repeated NOT_LITERAL
                # greedy .* before the dash makes it the LAST dash
                ok = ok and items[0][0] == re._constants.MAX_REPEAT and list(items[0][1][2]) == [(re._constants.ANY, None)]
    r3.check(ok, f"{ab.rel}:get_hash_from_job_name:regex", f"the parse pattern {pats} does not capture the last dash-free component after a dash", ab.rel, gh.lineno)
    ok = "job_name.endswith(array_suffix)" in src(gh) and "job_name[:-len(array_suffix)]" in src(gh)
    r3.check(ok, f"{ab.rel}:get_hash_from_job_name:array-suffix", "the array suffix is not stripped before parsing", ab.rel, gh.lineno)

    r4 = ctx.rule("C32.4", "scratch paths are functions of the evaluation hash; readers read what writers wrote", floor=3)
    for q in ("get_job_scratch_dir", "get_job_scratch_file"):
        fn = sm.func(q)
        rets = [src(r.value) for r in ast.walk(fn) if isinstance(r, ast.Return)]
        ok = len(rets) == 1 and "job.eval_hash" in rets[0] and "'jobs'" in rets[0] and "job.id" not in rets[0]
        r4.check(ok, f"{sm.rel}:{q}", "a job's scratch location is not derived from its eval_hash", sm.rel, fn.lineno)
    pr = sm.func("parse_job_result")
    ok = "get_job_scratch_file(scratch_prefix, job, SCRATCH_OUTPUT)" in src(pr) and "pickle.load(infile)" in src(pr)
    r4.check(ok, f"{sm.rel}:parse_job_result", "results are not read from the job's own output path", sm.rel, pr.lineno)
    pe = sm.func("parse_job_error")
    ok = "get_job_scratch_file(scratch_prefix, job, SCRATCH_ERROR)" in src(pe)
    r4.check(ok, f"{sm.rel}:parse_job_error", "errors are not read from the job's own error path", sm.rel, pe.lineno)

    # ---- C32.5 no stale output survives a re-execution -------------------------------------
    # Executors judge a finished remote job by the presence of its output file (docker.iter_job_status, batch status override), so when oneshot
    # is about to run the task function, any previous output at the same eval_hash path must have been removed on every path.
    r5 = ctx.rule("C32.5", "oneshot removes a previous output file on every path that re-executes the task", floor=1)
    cm5 = repo.mod("redun/cli.py")
    one = cm5.func("RedunClient.oneshot_command")
    c5 = CFG(one)
    runs = [c for c in calls_in(one) if src(c.func) in ("task.func", "task") and any(isinstance(a, ast.Starred) for a in c.args)]
    if not runs:
        raise AnalysisError("oneshot_command: call of the task function not found", "RedunClient.oneshot_command")
    removes = [c5.node_of(c) for c in calls_in(one) if last_attr(c) == "remove" and isinstance(c.func, ast.Attribute) and "output" in src(c.func.value)]
    # the output file is only written when an output path was given: paths on which `output_path` is falsy need no removal
    no_output = []
    for t in c5.nodes:
        if t.kind == "test" and isinstance(t.ast, ast.expr) and src(t.ast) == "output_path":
            no_output += c5.edge_nodes(t, "F")
    for rc in runs:
        node = c5.node_of(rc)
        ok = bool(removes) and c5.must_pass(c5.entry, set(removes) | set(no_output), targets=[node])
        r5.check(
            ok,
            f"{cm5.rel}:RedunClient.oneshot_command:remove-before-run",
            f"`{src(rc)[:50]}` (line {rc.lineno}) can be reached with an output path set but without removing the previous output file: if this execution raises, the error "
            "file is written next to the stale output, and executors that test for the output file (docker.iter_job_status, the batch failure override) report the old result as success",
            cm5.rel,
            rc.lineno,
        )
