"""C33 -- status filters agree with displayed statuses (exhaustive truth table).

Job.calc_status is read as a decision list, CallGraphQuery._job_status_term as
four SQL formulas; both are evaluated on every abstract job row with SQL NULL
semantics for the outer-joined Value.type.
"""

from __future__ import annotations

import ast
import itertools

from ..core import FuncNode, AnalysisError, assigned_targets, call_name, calls_in, const_str, dotted, src
from ..tables import inline_single_assignments, arm_value, if_chain, py_eval, sql_eval

EXPLANATION = (
    "C33.1 abstract job row = (end_time, call_hash, cached, result Value.type) in {NULL,set}x{NULL,set}x{F,T}x{NULL,Error,other}; "
    "rows consistent with the recorded invariants (record_job_end is the only writer of end_time/call_hash/cached and writes all three; "
    "a call node always has a value) are enumerated exhaustively; for each row and status the SQL filter term (3-valued) matches iff the "
    "displayed status equals it; C33.2 the same through Execution._job_status2exec_status and the DONE=>+CACHED widening; "
    "C33.3 the error type-name constants agree. C33.4 sibling cross-check: the console (redun/console/screens.py) joins the result Value through CallNode.value_hash with outer joins, and the execution screen's own --status filter chain is evaluated over the same consistent job rows against the displayed status."
)

DB = "redun/backends/db/__init__.py"
QUERY = "redun/backends/db/query.py"
SCHED = "redun/scheduler.py"
JOB_STATUSES = ["RUNNING", "CACHED", "FAILED", "DONE"]
EXEC_STATUSES = ["RUNNING", "FAILED", "DONE"]


def run(ctx):
    repo = ctx.repo
    db = repo.mod(DB)
    qm = repo.mod(QUERY)

    # --- constants -----------------------------------------------------------
    r3 = ctx.rule("C33.3", "error type-name constants agree between display, filter and ErrorValue", floor=2)
    qconsts = qm.module_consts()
    err_q = const_str(qconsts.get("REDUN_ERROR_TYPE_NAME"))
    ev = repo.mod(SCHED).cls("ErrorValue")
    err_v = const_str(repo.class_attr(repo.mod(SCHED), ev, "type_name"))
    calc = db.func("Job.calc_status")
    lits = {c.value for n in ast.walk(calc) if isinstance(n, ast.Compare) for c in ast.walk(n) if isinstance(c, ast.Constant) and isinstance(c.value, str)}
    r3.check(err_q is not None and err_q == err_v, f"{qm.rel}:REDUN_ERROR_TYPE_NAME", f"filter constant {err_q!r} != ErrorValue.type_name {err_v!r}", qm.rel, 0)
    r3.check(lits == {err_v}, f"{db.rel}:Job.calc_status:error-literal", f"display compares the result type with {sorted(lits)} but ErrorValue.type_name is {err_v!r}", db.rel, calc.lineno)
    ERR = err_v or "redun.ErrorValue"

    # --- invariants: who writes Job.end_time / call_hash / cached -------------
    r0 = ctx.rule("C33.0", "Job.end_time, call_hash and cached are written together, only by record_job_end (row invariants)", floor=3)
    writers: dict[str, set] = {"end_time": set(), "call_hash": set(), "cached": set()}
    for n in ast.walk(db.tree):
        if isinstance(n, (ast.Assign, ast.AugAssign)):
            for t in assigned_targets(n):
                if isinstance(t, ast.Attribute) and t.attr in writers and isinstance(t.value, ast.Name) and t.value.id in ("db_job",):
                    writers[t.attr].add(db.enclosing_qual(n))
    for col, ws in writers.items():
        r0.check(ws == {"RedunBackendDb.record_job_end"}, f"{db.rel}:Job.{col}:writers", f"Job.{col} is written by {sorted(ws)}, expected only record_job_end (the row invariants of the table rest on it)", db.rel, 0)
    # record_job_start must not set them
    rjs = db.func("RedunBackendDb.record_job_start")
    for c in calls_in(rjs):
        if call_name(c) == "Job":
            kws = {k.arg for k in c.keywords}
            r0.check(not (kws & set(writers)), f"{db.rel}:RedunBackendDb.record_job_start:Job()", f"record_job_start sets {sorted(kws & set(writers))} on a starting job", db.rel, c.lineno)

    # --- display decision list --------------------------------------------------
    arms = if_chain(calc)
    param = calc.args.args[1].arg  # result_type

    def display(row) -> str:
        env = {param: row["type"], "self.end_time": row["end_time"], "self.cached": row["cached"], "self.call_hash": row["call_hash"]}
        for test, body in arms:
            if test is None or py_eval(test, env):
                v = arm_value(body)
                s = const_str(v)
                if s is None:
                    raise AnalysisError(f"Job.calc_status arm does not produce a constant: {src(v)}", "Job.calc_status")
                return s
        raise AnalysisError("Job.calc_status: no arm taken", "Job.calc_status")

    # --- filter terms --------------------------------------------------------------
    term_fn = qm.func("CallGraphQuery._job_status_term")
    sparam = term_fn.args.args[1].arg
    terms = {}
    for test, body in if_chain(term_fn):
        if test is None:
            continue
        if not (isinstance(test, ast.Compare) and src(test.left) == sparam and isinstance(test.ops[0], ast.Eq)):
            raise AnalysisError(f"_job_status_term: unexpected test {src(test)}", "CallGraphQuery._job_status_term")
        terms[const_str(test.comparators[0])] = inline_single_assignments(term_fn, arm_value(body))
    missing = [s for s in JOB_STATUSES if s not in terms]
    if missing:
        raise AnalysisError(f"_job_status_term has no arm for {missing}", "CallGraphQuery._job_status_term")

    def matches(status: str, row) -> bool:
        cols = {"Job.end_time": row["end_time"], "Job.call_hash": row["call_hash"], "Job.cached": row["cached"], "Value.type": row["type"]}
        return sql_eval(terms[status], cols, {"REDUN_ERROR_TYPE_NAME": err_q}) is True

    # value join must be an outer join (jobs without call node stay visible)
    jv = qm.func("CallGraphQuery._join_values")
    r1 = ctx.rule("C33.1", "job status filter term matches a row iff its displayed status is that status (all consistent rows x 4 statuses)", floor=16)
    outer = [c for c in calls_in(jv) if isinstance(c.func, ast.Attribute) and c.func.attr in ("outerjoin", "join")]
    r1.check(all(c.func.attr == "outerjoin" for c in outer) and len(outer) >= 4, f"{qm.rel}:CallGraphQuery._join_values", "CallNode/Value are not outer-joined for status filters (running jobs would vanish)", qm.rel, jv.lineno)

    rows = []
    for end_time, call_hash, cached, typ in itertools.product([None, "t"], [None, "h"], [False, True], [None, ERR, "other.Type"]):
        row = {"end_time": end_time, "call_hash": call_hash, "cached": cached, "type": typ}
        consistent = ((end_time is None) == (call_hash is None)) and ((call_hash is None) == (typ is None)) and (not cached or end_time is not None)
        rows.append((row, consistent))
    n_cons = 0
    table = []
    for row, consistent in rows:
        if not consistent:
            continue
        n_cons += 1
        d = display(row)
        for s in JOB_STATUSES:
            mt = matches(s, row)
            rowname = f"ended={row['end_time'] is not None},result={'NULL' if row['type'] is None else ('Error' if row['type']==ERR else 'other')},cached={row['cached']}"
            table.append({"row": rowname, "display": d, "filter": s, "matches": mt})
            r1.check(
                mt == (d == s),
                f"{qm.rel}:CallGraphQuery._job_status_term:{s}:{rowname}",
                f"job row ({rowname}) is displayed as {d} but filter {s} {'matches' if mt else 'does not match'} it",
                qm.rel,
                term_fn.lineno,
                note=f"display={d}",
            )
    ctx.extra["truth_table"] = table
    ctx.extra["rows_total"] = len(rows)
    ctx.extra["rows_consistent"] = n_cons
    ctx.extra["exhaustive"] = True

    # --- executions ----------------------------------------------------------------------
    r2 = ctx.rule("C33.2", "execution status filter matches iff displayed execution status is that status", floor=12)
    conv = db.func("Execution._job_status2exec_status")
    cparam = conv.args.args[1].arg

    def exec_display(job_status):
        for test, body in if_chain(conv):
            if test is None or py_eval(test, {cparam: job_status}):
                v = arm_value(body)
                s = const_str(v)
                if s is not None:
                    return s
                if src(v) == cparam:
                    return job_status
                raise AnalysisError("unexpected arm in _job_status2exec_status", "Execution._job_status2exec_status")
        raise AnalysisError("no arm in _job_status2exec_status")

    fes = qm.func("CallGraphQuery.filter_execution_statuses")
    widen: dict[str, list[str]] = {}
    for n in ast.walk(fes):
        if isinstance(n, ast.If) and isinstance(n.test, ast.Compare) and isinstance(n.test.ops[0], ast.In):
            key = const_str(n.test.left)
            for c in calls_in(n):
                if isinstance(c.func, ast.Attribute) and c.func.attr == "append" and c.args and const_str(c.args[0]):
                    widen.setdefault(key, []).append(const_str(c.args[0]))
    # statuses the conversion drops: `[s for s in execution_statuses if s != "CACHED"]`
    dropped: set[str] = set()
    for n in ast.walk(fes):
        if isinstance(n, ast.ListComp) and len(n.generators) == 1 and isinstance(n.elt, ast.Name):
            for cond in n.generators[0].ifs:
                if isinstance(cond, ast.Compare) and len(cond.ops) == 1 and isinstance(cond.ops[0], ast.NotEq) and const_str(cond.comparators[0]):
                    dropped.add(const_str(cond.comparators[0]))
                if isinstance(cond, ast.Compare) and len(cond.ops) == 1 and isinstance(cond.ops[0], ast.NotIn) and isinstance(cond.comparators[0], (ast.Tuple, ast.List, ast.Set)):
                    dropped |= {const_str(e) for e in cond.comparators[0].elts if const_str(e)}
    uses_term = any(src(c).find("_job_status_term") >= 0 for c in calls_in(fes))
    if not uses_term:
        raise AnalysisError("filter_execution_statuses no longer maps statuses through _job_status_term", "CallGraphQuery.filter_execution_statuses")
    for row, consistent in rows:
        if not consistent:
            continue
        d = exec_display(display(row))
        rowname = f"root ended={row['end_time'] is not None},result={'NULL' if row['type'] is None else ('Error' if row['type']==ERR else 'other')},cached={row['cached']}"
        # every status the filter accepts, including CACHED (a job status that no execution is ever displayed with)
        for s in EXEC_STATUSES + ["CACHED"]:
            js = ([] if s in dropped else [s]) + widen.get(s, [])
            mt = any(matches(x, row) for x in js)
            r2.check(mt == (d == s), f"{qm.rel}:CallGraphQuery.filter_execution_statuses:{s}:{rowname}", f"execution with {rowname} is displayed {d} but filter {s} {'matches' if mt else 'does not match'}", qm.rel, fes.lineno, note=f"display={d}")
    ctx.assume("an Execution row is only written together with its root Job row (record_job_start), so executions without a root job are outside the table")
    _console_rules(ctx, repo, display, ERR, err_q, JOB_STATUSES)
    # ---- C33.5 the displayed status is not a stale memo --------------------------------------
    # Job.status / Execution.status memoise their result in a plain attribute that the @reconstructor resets.  The filter reads the columns; the display
    # reads the memo.  They agree for an ORM object that stays in the session across record_job_end only if the memo is dropped whenever SQLAlchemy
    # expires/refreshes the object's columns, and a freshly constructed object (record_job_start returns one) must have the memo at all.
    r5 = ctx.rule("C33.5", "memoised status fields are initialised by the constructor and dropped on expire/refresh", floor=4)
    listeners = {}  # (model, event) -> handler function names
    for n in ast.walk(db.tree):
        if isinstance(n, ast.Call) and call_name(n) in ("event.listen", "event.listens_for") and len(n.args) >= 2:
            tgt, evn = n.args[0], const_str(n.args[1])
            models = [src(tgt)]
            p = db.parent.get(n)
            while p is not None:
                if isinstance(p, ast.For) and src(p.target) == src(tgt) and isinstance(p.iter, (ast.Tuple, ast.List)):
                    models = [src(e) for e in p.iter.elts]
                p = db.parent.get(p)
            handler = src(n.args[2]) if len(n.args) > 2 else None
            if handler is None:
                dec = db.parent.get(n)
                handler = dec.name if isinstance(dec, FuncNode) else None
            for mo in models:
                listeners.setdefault((mo, evn), []).append(handler)
    for model in ("Job", "Execution"):
        cls = db.cls(model)
        recon = [st for st in cls.body if isinstance(st, FuncNode) and any(src(d) == "reconstructor" for d in st.decorator_list)]
        memos = sorted({t.attr for st in recon for a in ast.walk(st) if isinstance(a, (ast.Assign, ast.AnnAssign)) for t in ([a.target] if isinstance(a, ast.AnnAssign) else a.targets) if isinstance(t, ast.Attribute) and src(t.value) == "self"})
        cached = [f for f in memos if any(isinstance(a, ast.Assign) and any(isinstance(t, ast.Attribute) and t.attr == f and src(t.value) == "self" for t in a.targets) for st in cls.body if isinstance(st, FuncNode) and st not in recon for a in ast.walk(st))]
        if not cached:
            r5.good(f"{db.rel}:{model}:no-memo", "status is computed on every read")
            continue
        init = next((st for st in cls.body if isinstance(st, FuncNode) and st.name == "__init__"), None)
        ok_init = init is not None and (any(call_name(c) in {f"self.{r.name}" for r in recon} for c in calls_in(init)) or all(any(isinstance(t, ast.Attribute) and t.attr == f for a in ast.walk(init) if isinstance(a, ast.Assign) for t in a.targets) for f in cached))
        r5.check(
            ok_init,
            f"{db.rel}:{model}.__init__:memo-initialised",
            f"{model} memoises {cached} but only the @reconstructor sets the field: a {model} object constructed in this process (e.g. the row returned by record_job_start) raises AttributeError on .status",
            db.rel,
            cls.lineno,
        )
        for evn in ("expire", "refresh"):
            hs = [h for h in listeners.get((model, evn), []) if h]
            resets = False
            for h in hs:
                hf = db.funcs.get(h)
                if hf is not None and all(any(isinstance(a, ast.Assign) and any(isinstance(t, ast.Attribute) and t.attr == f for t in a.targets) for a in ast.walk(hf)) for f in cached):
                    resets = True
            r5.check(
                resets,
                f"{db.rel}:{model}:memo-dropped-on-{evn}",
                f"{model}.status memoises its value in {cached}, which nothing resets when the session {evn}s the object's columns (every commit expires them): an object whose status was read while "
                f"the job was running keeps displaying RUNNING after record_job_end, while the status filters -- which read end_time/call_hash/cached -- return it for DONE and not for RUNNING",
                db.rel,
                cls.lineno,
            )
    # ---- C33.6 what a query hands out after build() comes from the built query -------------------------
    # Filters (status filters among them) are applied lazily by build().  A method that builds and then derives its result from the *unbuilt*
    # self._jobs / self._executions ... returns unfiltered rows: filter_job_statuses(["FAILED"]).limit(10) yields jobs of every status.
    r6 = ctx.rule("C33.6", "methods of CallGraphQuery that call build() do not read the unbuilt subqueries afterwards", floor=3)
    SUBQ = {"_executions", "_jobs", "_call_nodes", "_tasks", "_values"}
    qcls = qm.cls("CallGraphQuery")
    n6 = 0
    for st in qcls.body:
        if not isinstance(st, FuncNode) or st.name in ("build", "clone", "__init__"):
            continue
        if not any(call_name(c) == "self.build" for c in calls_in(st)):
            continue
        n6 += 1
        raw = [n for n in ast.walk(st) if isinstance(n, ast.Attribute) and n.attr in SUBQ and isinstance(n.value, ast.Name) and n.value.id == "self" and isinstance(n.ctx, ast.Load)]
        r6.check(
            not raw,
            f"{qm.rel}:CallGraphQuery.{st.name}:uses-built-subqueries",
            f"CallGraphQuery.{st.name} calls self.build() but then reads `self.{raw[0].attr if raw else ''}` (line {raw[0].lineno if raw else 0}), the subquery *before* joins and filters were applied: "
            "the status filter is dropped, so e.g. filter_job_statuses(['FAILED']).limit(10) returns jobs whose displayed status is DONE or CACHED",
            qm.rel,
            raw[0].lineno if raw else st.lineno,
        )
    if n6 < 3:
        raise AnalysisError(f"only {n6} CallGraphQuery methods calling build() found", "CallGraphQuery")


def _console_rules(ctx, repo, display, ERR, err_q, JOB_STATUSES):
    """C33.4: the console's own copies of the status logic (sibling implementations) agree with the displayed status."""
    import itertools

    from ..tables import sql_eval

    r4 = ctx.rule("C33.4", "the console's status filters and result-type joins agree with the displayed status", floor=6)
    cm = repo.mod("redun/console/screens.py")
    lj = cm.func("ExecutionScreen.load_jobs")
    # (a) every join of Value onto CallNode in the console goes through the call node's *result* hash
    njoin = 0
    for q, fn in cm.funcs.items():
        for c in calls_in(fn):
            if isinstance(c.func, ast.Attribute) and c.func.attr in ("outerjoin", "join") and c.args and src(c.args[0]) == "Value" and len(c.args) >= 2 and "CallNode" in src(c.args[1]):
                njoin += 1
                cond = c.args[1]
                ok = isinstance(cond, ast.Compare) and {src(cond.left), src(cond.comparators[0])} == {"CallNode.value_hash", "Value.value_hash"}
                r4.check(
                    ok,
                    f"{cm.rel}:{q}:join(Value)",
                    f"`{src(c.args[1])}` joins the result Value through the wrong column: the result type is NULL for every job, so failed jobs are displayed as DONE/CACHED while the FAILED filter returns them",
                    cm.rel,
                    c.lineno,
                )
                r4.check(c.func.attr == "outerjoin", f"{cm.rel}:{q}:outerjoin(Value)", "the result Value is inner-joined: running jobs vanish from the list", cm.rel, c.lineno)
    if njoin < 2:
        raise AnalysisError(f"only {njoin} Value joins found in the console", "redun/console/screens.py")
    # (b) the status filter chain of the execution screen
    chain = None
    for n in ast.walk(lj):
        if isinstance(n, ast.If) and isinstance(n.test, ast.Compare) and src(n.test.left) == "status" and isinstance(n.test.ops[0], ast.Eq):
            chain = n
            break
    if chain is None:
        raise AnalysisError("ExecutionScreen.load_jobs: status filter chain not found", "ExecutionScreen.load_jobs")
    terms = {}
    cur = chain
    while cur is not None:
        st = const_str(cur.test.comparators[0])
        flt = next((c for b in cur.body for c in ast.walk(b) if isinstance(c, ast.Call) and isinstance(c.func, ast.Attribute) and c.func.attr == "filter"), None)
        if st is None or flt is None or len(flt.args) != 1:
            raise AnalysisError(f"ExecutionScreen.load_jobs: arm `{src(cur.test)}` is not `query = query.filter(<term>)`", "ExecutionScreen.load_jobs")
        terms[st] = flt.args[0]
        cur = cur.orelse[0] if len(cur.orelse) == 1 and isinstance(cur.orelse[0], ast.If) else None
    missing = [s for s in JOB_STATUSES if s not in terms]
    if missing:
        raise AnalysisError(f"console status filter has no arm for {missing}", "ExecutionScreen.load_jobs")
    for end_time, call_hash, cached, typ in itertools.product([None, "t"], [None, "h"], [False, True], [None, ERR, "other.Type"]):
        consistent = ((end_time is None) == (call_hash is None)) and ((call_hash is None) == (typ is None)) and (not cached or end_time is not None)
        if not consistent:
            continue
        row = {"end_time": end_time, "call_hash": call_hash, "cached": cached, "type": typ}
        d = display(row)
        cols = {"Job.end_time": end_time, "Job.call_hash": call_hash, "Job.cached": cached, "Value.type": typ}
        for s in JOB_STATUSES:
            mt = sql_eval(terms[s], cols, {"REDUN_ERROR_TYPE_NAME": err_q}) is True
            rowname = f"ended={end_time is not None},result={'NULL' if typ is None else ('Error' if typ == ERR else 'other')},cached={cached}"
            r4.check(
                mt == (d == s),
                f"{cm.rel}:ExecutionScreen.load_jobs:{s}:{rowname}",
                f"console filter --status {s} {'matches' if mt else 'does not match'} a job row ({rowname}) that is displayed as {d}",
                cm.rel,
                chain.lineno,
            )
