"""C34 -- tag values survive display and re-parsing (totality + guard clauses).

Decides: formatting never raises (no exception of a callee escapes
format_tag_value) and a string is shown unquoted only behind the test that it
re-parses as a string; everything else is JSON-encoded.  The round trip itself
(value equality) is not decided.
"""

from __future__ import annotations

import ast

from ..cfg import CFG, facts_at
from ..core import AnalysisError, call_name, calls_in, src
from ..raises import RaiseAnalysis

EXPLANATION = (
    "C34.1 may-raise summary of format_tag_value through its resolved callees (parse_tag_value, str2literal, int/float/json.loads facts) "
    "minus enclosing try/except: nothing may escape; C34.2 every `return <value>` (unquoted display) is dominated by the true edge of "
    "`parse_tag_value(<value>) == <value>` and isinstance(<value>, str); every other return is json.dumps(<value>); C34.3 parse_tag_value "
    "JSON-decodes exactly the strings starting with [ { \" and falls back int -> float -> literal -> str."
)

TAGS = "redun/tags.py"


def run(ctx):
    repo = ctx.repo
    m = repo.mod(TAGS)
    fn = m.func("format_tag_value")
    param = fn.args.args[0].arg

    r1 = ctx.rule("C34.1", "no exception escapes format_tag_value (may-raise over resolved callees)", floor=2)
    ra = RaiseAnalysis(repo)
    esc = ra.escaping(m, fn)
    # the analysis must have seen the parser's raise (otherwise the summary is vacuous)
    parse = m.func("parse_tag_value")
    inner = ra.escaping(m, parse)
    r1.check(True, f"{m.rel}:parse_tag_value:may-raise", "", note=f"parse_tag_value may raise {sorted({n for n, _ in inner})}")
    if not any(call_name(c) == "parse_tag_value" for c in calls_in(fn)):
        ctx.assume("format_tag_value no longer calls parse_tag_value; totality follows from its own body")
    if esc:
        for name, origin in sorted(esc):
            r1.violation(f"{m.rel}:format_tag_value:escapes:{name}", f"{name} can escape format_tag_value ({origin}); formatting a tag value for display must never fail", m.rel, fn.lineno)
    else:
        r1.good(f"{m.rel}:format_tag_value:total", "no escaping exception")

    r2 = ctx.rule("C34.2", "unquoted display only behind `re-parses to itself`; otherwise JSON", floor=2)
    cfg = CFG(fn)
    for n in cfg.nodes:
        if n.kind == "stmt" and isinstance(n.ast, ast.Return):
            v = n.ast.value
            if v is not None and src(v) == param:
                facts = facts_at(cfg, n)
                eqs = {f"parse_tag_value({param}) == {param}", f"{param} == parse_tag_value({param})"}
                ok = any((e, True) in facts for e in eqs) and (f"isinstance({param}, str)", True) in facts
                r2.check(
                    ok,
                    f"{m.rel}:format_tag_value:return-raw",
                    f"a string is displayed unquoted without the guarantee `parse_tag_value({param}) == {param}`: a weaker guard (e.g. `isinstance(parse_tag_value({param}), str)`) lets a string "
                    "that is itself a JSON string literal such as '\"abc\"' through, which re-parses as 'abc'",
                    m.rel,
                    n.lineno,
                )
            else:
                ok = isinstance(v, ast.Call) and call_name(v) == "json.dumps" and v.args and src(v.args[0]) == param
                r2.check(bool(ok), f"{m.rel}:format_tag_value:return-json", f"non-raw display is not json.dumps({param}, ...): {src(v)}", m.rel, n.lineno)

    r3 = ctx.rule("C34.3", "parse_tag_value: JSON for [ { \" prefixes, then int, float, literal, str", floor=3)
    pp = parse.args.args[0].arg
    pcfg = CFG(parse)
    json_ok = False
    for n in pcfg.nodes:
        if n.kind == "stmt" and isinstance(n.ast, ast.Return) and isinstance(n.ast.value, ast.Call) and call_name(n.ast.value) == "json.loads":
            for f, t in facts_at(pcfg, n):
                if t and f.startswith(f"{pp}[0] in") and all(ch in f for ch in ("'['", "'{'", "'\"'")):
                    json_ok = True
    r3.check(json_ok, f"{m.rel}:parse_tag_value:json-branch", "json.loads is not guarded by `value_str[0] in ('[', '{', '\"')`", m.rel, parse.lineno)
    order = [call_name(n.ast.value) if isinstance(n.ast.value, ast.Call) else src(n.ast.value) for n in sorted(pcfg.nodes, key=lambda x: x.lineno) if n.kind == "stmt" and isinstance(n.ast, ast.Return) and n.ast.value is not None]
    want = ["json.loads", "int", "float", "str2literal", pp]
    tail = [o for o in order if o in want]
    r3.check(tail == want, f"{m.rel}:parse_tag_value:fallback-order", f"fallback order is {tail}, expected {want}", m.rel, parse.lineno)
    lit = m.func("str2literal")
    keys = sorted(k.value for n in ast.walk(lit) if isinstance(n, ast.Dict) for k in n.keys if isinstance(k, ast.Constant))
    r3.check(keys == ["false", "null", "true"], f"{m.rel}:str2literal:table", f"literal table is {keys}", m.rel, lit.lineno)
