"""C34 -- tag values survive display and re-parsing (totality + guard clauses).

Decides: formatting never raises (no exception of a callee escapes
format_tag_value) and a string is shown unquoted only behind the test that it
re-parses as a string; everything else is JSON-encoded.  The round trip itself
(value equality) is not decided.
"""

from __future__ import annotations

import ast

from ..cfg import CFG, facts_at
from ..core import AnalysisError, call_name, calls_in, const_str, src
from ..raises import RaiseAnalysis

EXPLANATION = (
    "C34.1 may-raise summary of format_tag_value through its resolved callees (parse_tag_value, str2literal, int/float/json.loads facts) "
    "minus enclosing try/except: nothing may escape; C34.2 every `return <value>` (unquoted display) is dominated by the true edge of "
    "`parse_tag_value(<value>) == <value>` and isinstance(<value>, str); every other return is json.dumps(<value>); C34.3 parse_tag_value "
    "JSON-decodes exactly the strings starting with [ { \" and falls back int -> float -> literal -> str."
    ' C34.4 the `return int(..)`/`return float(..)` fallbacks of parse_tag_value are gated only by the empty/JSON-prefix tests; a constant-regex gate is accepted only if it admits every numeral witness of int/float repr (1e+16, 1e-05, -0.0, Infinity, ...); other gates are an unknown idiom (exit 2).'
)

TAGS = "redun/tags.py"


def run(ctx):
    repo = ctx.repo
    m = repo.mod(TAGS)
    fn = m.func("format_tag_value")
    param = fn.args.args[0].arg

    r1 = ctx.rule("C34.1", "no exception escapes format_tag_value (may-raise over resolved callees)", floor=2)
    ra = RaiseAnalysis(repo)
    esc = ra.escaping(m, fn)
    # the analysis must have seen the parser's raise (otherwise the summary is vacuous)
    parse = m.func("parse_tag_value")
    inner = ra.escaping(m, parse)
    r1.check(True, f"{m.rel}:parse_tag_value:may-raise", "", note=f"parse_tag_value may raise {sorted({n for n, _ in inner})}")
    if not any(call_name(c) == "parse_tag_value" for c in calls_in(fn)):
        ctx.assume("format_tag_value no longer calls parse_tag_value; totality follows from its own body")
    if esc:
        for name, origin in sorted(esc):
            # keyed by the raising callee as well: a known finding about json.dumps must not hide an escape from the parser
            via = origin.split("(")[0].split(" ")[0]
            r1.violation(f"{m.rel}:format_tag_value:escapes:{name}:via-{via}", f"{name} can escape format_tag_value ({origin}); formatting a tag value for display must never fail", m.rel, fn.lineno)
    else:
        r1.good(f"{m.rel}:format_tag_value:total", "no escaping exception")

    r2 = ctx.rule("C34.2", "unquoted display only behind `re-parses to itself`; otherwise JSON", floor=2)
    cfg = CFG(fn)
    for n in cfg.nodes:
        if n.kind == "stmt" and isinstance(n.ast, ast.Return):
            v = n.ast.value
            if v is not None and src(v) == param:
                facts = facts_at(cfg, n)
                eqs = {f"parse_tag_value({param}) == {param}", f"{param} == parse_tag_value({param})"}
                ok = any((e, True) in facts for e in eqs) and (f"isinstance({param}, str)", True) in facts
                r2.check(
                    ok,
                    f"{m.rel}:format_tag_value:return-raw",
                    f"a string is displayed unquoted without the guarantee `parse_tag_value({param}) == {param}`: a weaker guard (e.g. `isinstance(parse_tag_value({param}), str)`) lets a string "
                    "that is itself a JSON string literal such as '\"abc\"' through, which re-parses as 'abc'",
                    m.rel,
                    n.lineno,
                )
            else:
                ok = isinstance(v, ast.Call) and call_name(v) == "json.dumps" and v.args and src(v.args[0]) == param
                r2.check(bool(ok), f"{m.rel}:format_tag_value:return-json", f"non-raw display is not json.dumps({param}, ...): {src(v)}", m.rel, n.lineno)

    r3 = ctx.rule("C34.3", "parse_tag_value: JSON for [ { \" prefixes, then int, float, literal, str", floor=3)
    pp = parse.args.args[0].arg
    pcfg = CFG(parse)
    json_ok = False
    for n in pcfg.nodes:
        if n.kind == "stmt" and isinstance(n.ast, ast.Return) and isinstance(n.ast.value, ast.Call) and call_name(n.ast.value) == "json.loads":
            for f, t in facts_at(pcfg, n):
                if t and f.startswith(f"{pp}[0] in") and all(ch in f for ch in ("'['", "'{'", "'\"'")):
                    json_ok = True
    r3.check(json_ok, f"{m.rel}:parse_tag_value:json-branch", "json.loads is not guarded by `value_str[0] in ('[', '{', '\"')`", m.rel, parse.lineno)
    order = [call_name(n.ast.value) if isinstance(n.ast.value, ast.Call) else src(n.ast.value) for n in sorted(pcfg.nodes, key=lambda x: x.lineno) if n.kind == "stmt" and isinstance(n.ast, ast.Return) and n.ast.value is not None]
    want = ["json.loads", "int", "float", "str2literal", pp]
    tail = [o for o in order if o in want]
    r3.check(tail == want, f"{m.rel}:parse_tag_value:fallback-order", f"fallback order is {tail}, expected {want}", m.rel, parse.lineno)
    lit = m.func("str2literal")
    keys = sorted(k.value for n in ast.walk(lit) if isinstance(n, ast.Dict) for k in n.keys if isinstance(k, ast.Constant))
    r3.check(keys == ["false", "null", "true"], f"{m.rel}:str2literal:table", f"literal table is {keys}", m.rel, lit.lineno)

    # ---- C34.4 numeric fallbacks are not gated more narrowly than json.dumps writes numbers ----
    r4 = ctx.rule("C34.4", "int()/float() fallbacks admit every numeral json.dumps writes (no narrower gate)", floor=2)
    import re as _re

    # what json.dumps (= int.__repr__ / float.__repr__) writes for non-string scalars
    witnesses = ["0", "-7", "12345678901234567890", "1.5", "-0.0", "1e-05", "1e+16", "-2.5e+300", "1.7976931348623157e+308", "5e-324", "Infinity", "-Infinity"]
    known = {(f"not {pp}", False), (f"{pp}", True)}
    for n in pcfg.nodes:
        if not (n.kind == "stmt" and isinstance(n.ast, ast.Return) and isinstance(n.ast.value, ast.Call) and call_name(n.ast.value) in ("int", "float")):
            continue
        which = call_name(n.ast.value)
        for f, t in sorted(facts_at(pcfg, n)):
            if (f, t) in known or (f.startswith(f"{pp}[0] in") and not t):
                continue
            key = f"{m.rel}:parse_tag_value:{which}-gate"
            pat = _gate_pattern(m, f, pp)
            if pat is None:
                raise AnalysisError(f"parse_tag_value: `return {which}(...)` is gated by `{f}` == {t}, an idiom this analysis cannot compare with the numerals json.dumps writes", "parse_tag_value")
            rx, how = pat
            rej = [w for w in witnesses if bool(getattr(rx, how)(w)) != t and (which == "float" or _re.fullmatch(r"-?[0-9]+", w))]
            r4.check(
                not rej,
                key,
                f"`return {which}({pp})` is reached only when `{f}` is {t}; that gate rejects {rej}, which format_tag_value writes for numbers (json.dumps): "
                "such a number is displayed as a numeral that re-parses as a string",
                m.rel,
                n.lineno,
            )
        r4.good(f"{m.rel}:parse_tag_value:{which}-reachable", f"return {which}() gated only by the empty/JSON-prefix tests or a gate admitting all {len(witnesses)} numeral witnesses")
    # ---- C34.5 the command-line splitter hands the whole remainder to the value parser -------------
    # format_tag_value decides "bare or quoted" by asking parse_tag_value; the command line is parsed by parse_tag_key_value.  The two agree only
    # if the value given to parse_tag_value is everything after the first '=' -- including newlines and further '=' characters.
    r5 = ctx.rule("C34.5", "parse_tag_key_value passes everything after the first '=' to parse_tag_value", floor=1)
    import re as _re5

    kv = m.func("parse_tag_key_value")
    kp = kv.args.args[0].arg
    pcalls = [c for c in calls_in(kv) if call_name(c) == "parse_tag_value" and c.args]
    if not pcalls:
        raise AnalysisError("parse_tag_key_value no longer calls parse_tag_value", "parse_tag_key_value")
    WITNESS = ["k=v", "k=a=b", "k=line1\nline2", "k=\n", "k=v\n", "k= x ", "k="]
    for c in pcalls:
        a = c.args[0]
        ok, why = None, ""
        if isinstance(a, ast.Name):
            defs = [x for x in ast.walk(kv) if isinstance(x, ast.Assign) and any(a.id in [n.id for n in ast.walk(t) if isinstance(n, ast.Name)] for t in x.targets)]
            if len(defs) == 1 and isinstance(defs[0].value, ast.Call) and isinstance(defs[0].value.func, ast.Attribute):
                d = defs[0].value
                if d.func.attr == "split" and src(d.func.value) == kp and [src(x) for x in d.args] == ["'='", "1"]:
                    ok = True
                elif d.func.attr == "partition" and src(d.func.value) == kp and [src(x) for x in d.args] == ["'='"]:
                    ok = True
        if ok is None and isinstance(a, ast.Call) and isinstance(a.func, ast.Attribute) and a.func.attr == "group" and isinstance(a.func.value, ast.Name):
            mv = a.func.value.id
            mdefs = [x.value for x in ast.walk(kv) if isinstance(x, ast.Assign) and any(isinstance(t, ast.Name) and t.id == mv for t in x.targets)]
            if len(mdefs) == 1 and isinstance(mdefs[0], ast.Call) and isinstance(mdefs[0].func, ast.Attribute) and mdefs[0].func.attr in ("match", "fullmatch", "search"):
                how = mdefs[0].func.attr
                pat = _gate_pattern(m, f"{src(mdefs[0].func.value)}.{how}({kp})", kp) if src(mdefs[0].func.value) != "re" else None
                if pat is None and src(mdefs[0].func.value) == "re" and mdefs[0].args:
                    ps = const_str(mdefs[0].args[0])
                    pat = (_re5.compile(ps), how) if ps else None
                if pat is not None:
                    rx, how = pat
                    g = a.args[0].value if a.args and isinstance(a.args[0], ast.Constant) else 0
                    wrong = []
                    for w in WITNESS:
                        mm = getattr(rx, how)(w)
                        want = w.split("=", 1)[1]
                        got = mm.group(g) if mm else None
                        if got != want:
                            wrong.append((w, got))
                    ok = not wrong
                    why = f"the pattern {rx.pattern!r} used with .{how}() yields {wrong[:3]} (input, value) instead of the remainder after the first '='"
        if ok is None:
            raise AnalysisError(f"parse_tag_key_value: the value `{src(a)}` is derived in a way this analysis does not know (not split('=', 1) / partition('=') / a constant regex group)", "parse_tag_key_value")
        r5.check(
            ok,
            f"{m.rel}:parse_tag_key_value:value-is-remainder",
            f"{why}: a string value that format_tag_value displays bare (because parse_tag_value(value) == value) is cut or altered when the displayed key=value text is parsed from the command line",
            m.rel,
            c.lineno,
        )

    # ---- C34.6 formatting / parsing is not served from a ==-keyed memo --------------------------------------
    r6 = ctx.rule("C34.6", "format_tag_value / parse_tag_value (and the helpers they call) are not memoised by a cache keyed with ==", floor=2)
    from ..flow import memoised_callee_obligations

    for construct, ok, msg, rel_, line in memoised_callee_obligations(repo, (m.rel,), lambda leaf: leaf in ("format_tag_value", "parse_tag_value", "parse_tag_key_value")):
        r6.check(ok, construct, msg + (" -- e.g. format_tag_value(True) then format_tag_value(1.0) gives 'true', which parses back to a bool" if msg else ""), rel_, line)


def _gate_pattern(m, fact: str, pp: str):
    """`NAME.fullmatch(pp)` / `re.fullmatch(PAT, pp)` (or match/search) with a constant pattern -> (compiled, method)."""
    import re as _re

    try:
        e = ast.parse(fact, mode="eval").body
    except SyntaxError:
        return None
    if not (isinstance(e, ast.Call) and isinstance(e.func, ast.Attribute) and e.func.attr in ("fullmatch", "match", "search")):
        return None
    how = e.func.attr
    recv = src(e.func.value)
    pat = None
    flags = 0
    if recv == "re" and len(e.args) >= 2 and src(e.args[1]) == pp:
        pat = const_str(e.args[0])
    elif len(e.args) == 1 and src(e.args[0]) == pp:
        for a in m.tree.body:
            if isinstance(a, ast.Assign) and any(isinstance(t, ast.Name) and t.id == recv for t in a.targets) and isinstance(a.value, ast.Call) and call_name(a.value) == "re.compile" and a.value.args:
                pat = const_str(a.value.args[0])
                if len(a.value.args) > 1 or a.value.keywords:
                    fl = src(a.value.args[1] if len(a.value.args) > 1 else a.value.keywords[0].value)
                    for name in fl.replace("re.", "").split("|"):
                        flags |= int(getattr(_re, name.strip(), 0))
    if pat is None:
        return None
    return _re.compile(pat, flags), how
