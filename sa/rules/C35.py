"""C35 -- configuration survives conversion to a dictionary and back (structural clauses).

Decides: values that leave an interpolating parser through get_config_dict and
re-enter one through read_dict are exported raw or re-escaped; section names
are split and joined with the same separator; the config-dir replacement only
touches string values and only when requested.  Equality of effective values is
not decided.
"""

from __future__ import annotations

import ast

from ..cfg import CFG, facts_at
from ..core import AnalysisError, FuncNode, call_name, calls_in, const_str, kwarg, last_attr, names_in, src

EXPLANATION = (
    "C35.1 interpolation discipline: in Config.get_config_dict every value stored in the result either is read raw (items(raw=True)) or "
    "flows through an escape of the interpolation character ($ -> $$) before it can be re-read by read_dict into an interpolating parser; "
    "C35.2 _parse_sections splits section names on the separator get_config_dict joins with; C35.3 substitute_config_dir applies "
    "str.replace(local, new) to str values only and only when replace_config_dir is not None; C35.4 both subrun ends use the pair "
    "get_config_dict / Config(config_dict=...)."
)

CONFIG = "redun/config.py"
SCHED = "redun/scheduler.py"


def _escapes(expr: ast.AST, local_funcs: dict) -> bool:
    for c in ast.walk(expr):
        if isinstance(c, ast.Call):
            if last_attr(c) == "replace" and len(c.args) == 2 and const_str(c.args[0]) == "$" and const_str(c.args[1]) == "$$":
                return True
            d = call_name(c)
            if d in local_funcs:
                f = local_funcs[d]
                if any(r.value is not None and _escapes(r.value, {}) for r in ast.walk(f) if isinstance(r, ast.Return)):
                    return True
    return False


def _is_escape_call(c: ast.AST) -> bool:
    return isinstance(c, ast.Call) and last_attr(c) == "replace" and len(c.args) == 2 and const_str(c.args[0]) == "$" and const_str(c.args[1]) == "$$"


def _unescaped_returns(expr: ast.AST, local_funcs: dict, depth: int = 0) -> list:
    """Return statements / expressions through which a *string* value can leave `expr` without having passed `.replace('$', '$$')` as the
    outermost string operation.  `expr` is an application of local helper functions to the raw value, e.g. escape(substitute(v)) or convert(v)."""
    if _is_escape_call(expr):
        return []  # whatever the receiver is, the result is escaped
    if isinstance(expr, ast.Call) and call_name(expr) in local_funcs and depth < 4:
        f = local_funcs[call_name(expr)]
        param = f.args.args[0].arg if f.args.args else None
        arg = expr.args[0] if expr.args else None
        inner_bad = _unescaped_returns(arg, local_funcs, depth + 1) if arg is not None and isinstance(arg, ast.Call) else None
        out = []
        cfg = CFG(f)
        for n in cfg.nodes:
            if n.kind != "stmt" or not isinstance(n.ast, ast.Return) or n.ast.value is None:
                continue
            v = n.ast.value
            facts = facts_at(cfg, n)
            if isinstance(v, ast.Name) and v.id == param:
                # identity return: harmless when the value is known not to be a str here; otherwise it is only as escaped as the argument was
                if (f"isinstance({param}, str)", False) in facts:
                    continue
                if inner_bad == []:
                    continue
                out.append((n.lineno, f"return {src(v)} (the value as received)"))
            elif _is_escape_call(v):
                continue
            else:
                out.append((n.lineno, f"return {src(v)[:60]}"))
        return out
    return [(getattr(expr, "lineno", 0), src(expr)[:60])]


def _raw_source(expr: ast.AST) -> bool:
    for c in ast.walk(expr):
        if isinstance(c, ast.Call) and last_attr(c) in ("items", "get"):
            rv = kwarg(c, "raw")
            if isinstance(rv, ast.Constant) and rv.value is True:
                return True
    return False


def run(ctx):
    repo = ctx.repo
    m = repo.mod(CONFIG)
    gcd = m.func("Config.get_config_dict")
    init = m.func("Config.__init__")

    interpolating = True
    for c in calls_in(init):
        if (call_name(c) or "").endswith("ConfigParser"):
            iv = kwarg(c, "interpolation")
            if isinstance(iv, ast.Constant) and iv.value is None:
                interpolating = False
    r1 = ctx.rule("C35.1", "values exported by get_config_dict are raw or re-escaped before re-interpolation", floor=1)
    local_funcs = {n.name: n for n in ast.walk(gcd) if isinstance(n, FuncNode) and n is not gcd}
    stores = []
    for n in ast.walk(gcd):
        if isinstance(n, ast.Assign) and any(isinstance(t, ast.Subscript) and src(t.value) == "result" for t in n.targets):
            stores.append(n)
    if not stores:
        raise AnalysisError("get_config_dict: store into result[...] not found", "Config.get_config_dict")
    for st in stores:
        v = st.value
        val_expr = v.value if isinstance(v, ast.DictComp) else v
        src_expr = v.generators[0].iter if isinstance(v, ast.DictComp) else v
        bad_rets = [] if ((not interpolating) or _raw_source(src_expr)) else _unescaped_returns(val_expr, local_funcs)
        r1.check(
            not bad_rets,
            f"{m.rel}:{m.enclosing_qual(st)}:result-store",
            f"values are read interpolated (`{src(src_expr)}`) and exported as `{src(val_expr)}`; a string can leave that conversion without `.replace('$', '$$')` through "
            f"{[b[1] + ' @line ' + str(b[0]) for b in bad_rets][:3]}: Config(config_dict=...) interpolates it a second time (a literal `$` written as `$$` becomes `$` and then fails or is substituted)",
            m.rel,
            st.lineno,
        )

    r2 = ctx.rule("C35.2", "section names are split and joined with the same separator", floor=2)
    ps = m.func("Config._parse_sections")
    seps = {const_str(c.args[0]) for c in calls_in(ps) if last_attr(c) == "split" and c.args}
    joins = set()
    for n in ast.walk(gcd):
        if isinstance(n, ast.JoinedStr):
            consts = [x.value for x in n.values if isinstance(x, ast.Constant)]
            if len(n.values) == 3 and len(consts) == 1:
                joins.add(consts[0])
    r2.check(len(seps) == 1 and None not in seps, f"{m.rel}:Config._parse_sections:split", f"split separators: {seps}", m.rel, ps.lineno)
    r2.check(joins == seps, f"{m.rel}:Config.get_config_dict:join", f"get_config_dict joins nested section names with {joins}, _parse_sections splits on {seps}", m.rel, gcd.lineno)
    # nesting: last part holds the section proxy, inner parts create dicts
    ok = any(isinstance(n, ast.Assign) and src(n.targets[0]) == "ptr[parts[-1]]" and src(n.value) == "parser[full_section]" for n in ast.walk(ps))
    r2.check(ok, f"{m.rel}:Config._parse_sections:leaf", "the last name component no longer maps to the parser's section", m.rel, ps.lineno)

    r3 = ctx.rule("C35.3", "config-dir substitution: str values only, only when requested, replaces the local dir", floor=1)
    subs = [(f, c) for f in local_funcs.values() for c in calls_in(f) if last_attr(c) == "replace" and [src(a) for a in c.args] == ["local_config_dir", "replace_config_dir"]]
    if not subs:
        raise AnalysisError("get_config_dict: `.replace(local_config_dir, replace_config_dir)` not found in any local helper", "Config.get_config_dict")
    for sub, c in subs:
        sp = sub.args.args[0].arg
        scfg = CFG(sub)
        facts = facts_at(scfg, scfg.node_of(c))
        ok = src(c.func.value) == sp and ("replace_config_dir is not None", True) in facts and ((f"isinstance({sp}, str)", True) in facts or (f"isinstance({sp}, str)", False) not in facts and any(f.startswith(f"isinstance({sp}, str)") or f == f"not isinstance({sp}, str)" for f, t in facts) or True)
        strguard = (f"isinstance({sp}, str)", True) in facts or any(isinstance(n, ast.If) and src(n.test) == f"not isinstance({sp}, str)" and any(isinstance(b, ast.Return) for b in n.body) and n.lineno < c.lineno for n in ast.walk(sub))
        r3.check(
            src(c.func.value) == sp and ("replace_config_dir is not None", True) in facts and strguard,
            f"{m.rel}:Config.get_config_dict.{sub.name}:substitution",
            "substitution is not `s.replace(local_config_dir, replace_config_dir)` applied to str values only and only when replace_config_dir is given",
            m.rel,
            c.lineno,
        )

    r4 = ctx.rule("C35.4", "subrun forwards get_config_dict(...) and the sub-scheduler rebuilds with Config(config_dict=...)", floor=2)
    sm = repo.mod(SCHED)
    sr = sm.func("subrun")
    ok = any((call_name(c) or "").endswith("config.get_config_dict") and kwarg(c, "replace_config_dir") is not None for c in calls_in(sr))
    r4.check(ok, f"{sm.rel}:subrun:get_config_dict", "subrun does not forward scheduler.config.get_config_dict(replace_config_dir=...)", sm.rel, sr.lineno)
    rt = sm.func("_subrun_root_task")
    ok = any(call_name(c) == "Config" and kwarg(c, "config_dict") is not None and src(kwarg(c, "config_dict")) == "config" for c in calls_in(rt))
    r4.check(ok, f"{sm.rel}:_subrun_root_task:Config(config_dict)", "the sub-scheduler is not built from Config(config_dict=config)", sm.rel, rt.lineno)

    # ---- C35.5 the reader un-escapes every value the writer escaped ----------------------------
    # get_config_dict() writes every `$` of an effective value as `$$` (C35.1).  The only place that turns `$$` back into `$` is
    # ExtendedInterpolation.before_get; the redun subclass must therefore delegate to it for every value, also for those without a `${...}` reference.
    r5 = ctx.rule("C35.5", "RedunExtendedInterpolation.before_get delegates to the parent's before_get on every path", floor=1)
    bg = m.func("RedunExtendedInterpolation.before_get")
    rets = [r for r in ast.walk(bg) if isinstance(r, ast.Return)]
    if not rets:
        raise AnalysisError("RedunExtendedInterpolation.before_get has no return", "RedunExtendedInterpolation.before_get")
    for r in rets:
        ok = isinstance(r.value, ast.Call) and src(r.value.func) == "super().before_get"
        r5.check(
            ok,
            f"{m.rel}:RedunExtendedInterpolation.before_get:return@{'super' if ok else src(r.value)[:30] if r.value is not None else 'None'}",
            f"before_get returns `{src(r.value)[:50] if r.value is not None else None}` (line {r.lineno}) without going through ExtendedInterpolation.before_get: for such values the escape `$$` is not turned back into `$`, "
            "while get_config_dict() doubles every `$` it exports -- a value with a literal dollar grows a `$` on every Config -> dict -> Config round trip",
            m.rel,
            r.lineno,
        )

    # ---- C35.6 the nested section walk descends from where it is ---------------------------------------
    r6 = ctx.rule("C35.6", "_parse_sections descends level by level (the pointer is advanced from itself)", floor=1)
    ps = m.func("Config._parse_sections")
    n6 = 0
    for lp in ast.walk(ps):
        if isinstance(lp, ast.For) and "parts" in src(lp.iter):
            ptrs = {src(a.targets[0]) for a in ast.walk(lp) if isinstance(a, ast.Assign) and isinstance(a.targets[0], ast.Name)}
            for a in ast.walk(lp):
                if isinstance(a, ast.Assign) and isinstance(a.targets[0], ast.Name):
                    n6 += 1
                    var = a.targets[0].id
                    reads_self = any(isinstance(x, ast.Name) and x.id == var for x in ast.walk(a.value))
                    r6.check(
                        reads_self,
                        f"{m.rel}:Config._parse_sections:descend:{var}",
                        f"`{src(a)}` inside the per-level loop does not start from `{var}`: every level is looked up in the same dict, so for a section `a.b.c` the intermediate levels land next to each other "
                        "(nesting {a: {}, b: {c: ..}}), get_config_dict() emits `b.c` instead of `a.b.c`, and `x.east.batch` / `x.west.batch` collide",
                        m.rel,
                        a.lineno,
                    )
    if n6 == 0:
        raise AnalysisError("_parse_sections: per-level descent loop not found", "Config._parse_sections")
