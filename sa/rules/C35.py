"""C35 -- configuration survives conversion to a dictionary and back (structural clauses).

Decides: values that leave an interpolating parser through get_config_dict and
re-enter one through read_dict are exported raw or re-escaped; section names
are split and joined with the same separator; the config-dir replacement only
touches string values and only when requested.  Equality of effective values is
not decided.
"""

from __future__ import annotations

import ast

from ..core import AnalysisError, FuncNode, call_name, calls_in, const_str, kwarg, last_attr, names_in, src

EXPLANATION = (
    "C35.1 interpolation discipline: in Config.get_config_dict every value stored in the result either is read raw (items(raw=True)) or "
    "flows through an escape of the interpolation character ($ -> $$) before it can be re-read by read_dict into an interpolating parser; "
    "C35.2 _parse_sections splits section names on the separator get_config_dict joins with; C35.3 substitute_config_dir applies "
    "str.replace(local, new) to str values only and only when replace_config_dir is not None; C35.4 both subrun ends use the pair "
    "get_config_dict / Config(config_dict=...)."
)

CONFIG = "redun/config.py"
SCHED = "redun/scheduler.py"


def _escapes(expr: ast.AST, local_funcs: dict) -> bool:
    for c in ast.walk(expr):
        if isinstance(c, ast.Call):
            if last_attr(c) == "replace" and len(c.args) == 2 and const_str(c.args[0]) == "$" and const_str(c.args[1]) == "$$":
                return True
            d = call_name(c)
            if d in local_funcs:
                f = local_funcs[d]
                if any(r.value is not None and _escapes(r.value, {}) for r in ast.walk(f) if isinstance(r, ast.Return)):
                    return True
    return False


def _raw_source(expr: ast.AST) -> bool:
    for c in ast.walk(expr):
        if isinstance(c, ast.Call) and last_attr(c) in ("items", "get"):
            rv = kwarg(c, "raw")
            if isinstance(rv, ast.Constant) and rv.value is True:
                return True
    return False


def run(ctx):
    repo = ctx.repo
    m = repo.mod(CONFIG)
    gcd = m.func("Config.get_config_dict")
    init = m.func("Config.__init__")

    interpolating = True
    for c in calls_in(init):
        if (call_name(c) or "").endswith("ConfigParser"):
            iv = kwarg(c, "interpolation")
            if isinstance(iv, ast.Constant) and iv.value is None:
                interpolating = False
    r1 = ctx.rule("C35.1", "values exported by get_config_dict are raw or re-escaped before re-interpolation", floor=1)
    local_funcs = {n.name: n for n in ast.walk(gcd) if isinstance(n, FuncNode) and n is not gcd}
    stores = []
    for n in ast.walk(gcd):
        if isinstance(n, ast.Assign) and any(isinstance(t, ast.Subscript) and src(t.value) == "result" for t in n.targets):
            stores.append(n)
    if not stores:
        raise AnalysisError("get_config_dict: store into result[...] not found", "Config.get_config_dict")
    for st in stores:
        v = st.value
        val_expr = v.value if isinstance(v, ast.DictComp) else v
        src_expr = v.generators[0].iter if isinstance(v, ast.DictComp) else v
        ok = (not interpolating) or _raw_source(src_expr) or _escapes(val_expr, local_funcs)
        r1.check(
            ok,
            f"{m.rel}:{m.enclosing_qual(st)}:result-store",
            f"values are read interpolated (`{src(src_expr)}`) and exported as `{src(val_expr)}` without escaping `$`: "
            "Config(config_dict=...) interpolates them a second time (a literal `$` written as `$$` becomes `$` and then fails or is substituted)",
            m.rel,
            st.lineno,
        )

    r2 = ctx.rule("C35.2", "section names are split and joined with the same separator", floor=2)
    ps = m.func("Config._parse_sections")
    seps = {const_str(c.args[0]) for c in calls_in(ps) if last_attr(c) == "split" and c.args}
    joins = set()
    for n in ast.walk(gcd):
        if isinstance(n, ast.JoinedStr):
            consts = [x.value for x in n.values if isinstance(x, ast.Constant)]
            if len(n.values) == 3 and len(consts) == 1:
                joins.add(consts[0])
    r2.check(len(seps) == 1 and None not in seps, f"{m.rel}:Config._parse_sections:split", f"split separators: {seps}", m.rel, ps.lineno)
    r2.check(joins == seps, f"{m.rel}:Config.get_config_dict:join", f"get_config_dict joins nested section names with {joins}, _parse_sections splits on {seps}", m.rel, gcd.lineno)
    # nesting: last part holds the section proxy, inner parts create dicts
    ok = any(isinstance(n, ast.Assign) and src(n.targets[0]) == "ptr[parts[-1]]" and src(n.value) == "parser[full_section]" for n in ast.walk(ps))
    r2.check(ok, f"{m.rel}:Config._parse_sections:leaf", "the last name component no longer maps to the parser's section", m.rel, ps.lineno)

    r3 = ctx.rule("C35.3", "config-dir substitution: str values only, only when requested, replaces the local dir", floor=1)
    sub = local_funcs.get("substitute_config_dir")
    if sub is None:
        raise AnalysisError("substitute_config_dir not found in get_config_dict", "Config.get_config_dict")
    sp = sub.args.args[0].arg
    ok = False
    for n in ast.walk(sub):
        if isinstance(n, ast.If):
            t = src(n.test)
            if "replace_config_dir is not None" in t and f"isinstance({sp}, str)" in t and isinstance(n.test, ast.BoolOp) and isinstance(n.test.op, ast.And):
                for b in n.body:
                    if isinstance(b, ast.Return) and isinstance(b.value, ast.Call) and last_attr(b.value) == "replace" and src(b.value.func.value) == sp and [src(a) for a in b.value.args] == ["local_config_dir", "replace_config_dir"]:
                        ok = True
    rets = [r for r in ast.walk(sub) if isinstance(r, ast.Return)]
    ok = ok and any(src(r.value) == sp for r in rets)
    r3.check(ok, f"{m.rel}:Config.get_config_dict.substitute_config_dir", "substitution is not `s.replace(local_config_dir, replace_config_dir)` guarded by `replace_config_dir is not None and isinstance(s, str)` with identity otherwise", m.rel, sub.lineno)

    r4 = ctx.rule("C35.4", "subrun forwards get_config_dict(...) and the sub-scheduler rebuilds with Config(config_dict=...)", floor=2)
    sm = repo.mod(SCHED)
    sr = sm.func("subrun")
    ok = any((call_name(c) or "").endswith("config.get_config_dict") and kwarg(c, "replace_config_dir") is not None for c in calls_in(sr))
    r4.check(ok, f"{sm.rel}:subrun:get_config_dict", "subrun does not forward scheduler.config.get_config_dict(replace_config_dir=...)", sm.rel, sr.lineno)
    rt = sm.func("_subrun_root_task")
    ok = any(call_name(c) == "Config" and kwarg(c, "config_dict") is not None and src(kwarg(c, "config_dict")) == "config" for c in calls_in(rt))
    r4.check(ok, f"{sm.rel}:_subrun_root_task:Config(config_dict)", "the sub-scheduler is not built from Config(config_dict=config)", sm.rel, rt.lineno)
