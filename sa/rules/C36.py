"""C36 -- schema migrations preserve recorded data (structural clauses).

Chain integrity of the alembic revisions against REDUN_DB_VERSIONS, no
destructive operation in any upgrade(), and agreement of the folded schema with
the declarative models.  Row-by-row equality is not decided.
"""

from __future__ import annotations

import ast
import os
import re

from ..core import AnalysisError, FuncNode, Module, call_name, calls_in, const_str, kwarg, last_attr, src

EXPLANATION = (
    "C36.1 revision/down_revision constants of alembic/versions/*.py form one linear chain whose order and ids equal REDUN_DB_VERSIONS, and the head "
    "satisfies REDUN_DB_MIN_VERSION; C36.2 in every upgrade() (including module-local helpers it calls): no drop_table/drop_column on a persistent "
    "table, SQL text is parsed statement by statement -- DELETE and DROP TABLE only on tables created in the same function, ALTER ... DROP COLUMN never, "
    "UPDATE only on columns added by this or the previous revision (backfill); C36.3 folding create_table/add_column/drop_* over the chain yields "
    "exactly the tables and columns of the declarative models."
    " C36.4 an `update T set c = (select .. from S ..)` whose S is a scratch table created in the same upgrade() requires S's defining query to carry no WHERE (or the same predicate as the UPDATE): unmatched rows are assigned NULL."
)

DB = "redun/backends/db/__init__.py"
VERS = "redun/backends/db/alembic/versions"


def _sql_strings(node: ast.AST) -> list[tuple[str, int]]:
    out = []
    for c in ast.walk(node):
        if isinstance(c, ast.Call) and (last_attr(c) in ("execute", "text")):
            for a in c.args[:1]:
                if isinstance(a, ast.Constant) and isinstance(a.value, str):
                    out.append((a.value, c.lineno))
                elif isinstance(a, ast.JoinedStr):
                    out.append(("".join(v.value if isinstance(v, ast.Constant) else " X " for v in a.values), c.lineno))
    return out


def _statements(sql: str) -> list[str]:
    # drop comments; split on ; outside $$ bodies
    sql = re.sub(r"--[^\n]*", " ", sql)
    parts, buf, in_dollar = [], "", False
    i = 0
    while i < len(sql):
        if sql.startswith("$$", i):
            in_dollar = not in_dollar
            buf += "$$"
            i += 2
            continue
        ch = sql[i]
        if ch == ";" and not in_dollar:
            parts.append(buf)
            buf = ""
        else:
            buf += ch
        i += 1
    parts.append(buf)
    return [re.sub(r"\s+", " ", p).strip().lower() for p in parts if p.strip()]


def _set_columns(setclause: str) -> list[str]:
    cols, depth, cur = [], 0, ""
    for ch in setclause:
        if ch == "(":
            depth += 1
        elif ch == ")":
            depth -= 1
        if ch == "," and depth == 0:
            cols.append(cur)
            cur = ""
        else:
            cur += ch
    cols.append(cur)
    out = []
    for c in cols:
        m = re.match(r'\s*"?(\w+)"?\s*=', c)
        if m:
            out.append(m.group(1))
    return out


def run(ctx):
    repo = ctx.repo
    db = repo.mod(DB)
    vdir = os.path.join(repo.root, VERS)
    if not os.path.isdir(vdir):
        raise AnalysisError("alembic versions directory not found", VERS)
    revs = {}
    for fn in sorted(os.listdir(vdir)):
        if fn.endswith(".py"):
            m = repo.modules.get(f"{VERS}/{fn}") or Module(repo.root, f"{VERS}/{fn}")
            consts = m.module_consts()
            rev, down = const_str(consts.get("revision")), consts.get("down_revision")
            if rev is None:
                raise AnalysisError(f"{fn}: no revision constant", fn)
            revs[rev] = (m, const_str(down) if down is not None else None)
    if len(revs) < 11:
        raise AnalysisError(f"only {len(revs)} revisions found (expected >= 11)", VERS)

    # ---- C36.1 chain ---------------------------------------------------------
    r1 = ctx.rule("C36.1", "revisions form one linear chain equal to REDUN_DB_VERSIONS; head satisfies the minimum version", floor=12)
    roots = [r for r, (_, d) in revs.items() if d is None]
    children = {}
    for r, (_, d) in revs.items():
        if d is not None:
            children.setdefault(d, []).append(r)
    r1.check(len(roots) == 1, f"{VERS}:roots", f"expected exactly one root revision, found {roots}", VERS, 0)
    chain = []
    cur = roots[0] if roots else None
    while cur is not None:
        chain.append(cur)
        nxt = children.get(cur, [])
        if len(nxt) > 1:
            r1.violation(f"{VERS}:{cur}:branch", f"revision {cur} has several successors {nxt}", VERS, 0)
        cur = nxt[0] if nxt else None
    r1.check(len(chain) == len(revs), f"{VERS}:linear", f"chain covers {len(chain)} of {len(revs)} revisions (dangling down_revision?)", VERS, 0)
    versions = []
    for n in ast.walk(db.tree):
        if isinstance(n, ast.Assign) and src(n.targets[0]) == "REDUN_DB_VERSIONS" and isinstance(n.value, ast.List):
            for e in n.value.elts:
                if isinstance(e, ast.Call) and len(e.args) >= 3:
                    versions.append((const_str(e.args[0]), e.args[1].value, e.args[2].value))
    if not versions:
        raise AnalysisError("REDUN_DB_VERSIONS not found", "REDUN_DB_VERSIONS")
    for i, rev in enumerate(chain):
        ok = i < len(versions) and versions[i][0] == rev
        r1.check(ok, f"{VERS}:{rev}:position", f"revision #{i} in the chain is {rev} but REDUN_DB_VERSIONS[{i}] is {versions[i][0] if i < len(versions) else None}", VERS, 0)
    mono = all(versions[i][1:] < versions[i + 1][1:] for i in range(len(versions) - 1))
    r1.check(mono and len(versions) == len(chain), f"{db.rel}:REDUN_DB_VERSIONS:monotone", "version numbers are not strictly increasing or the list length differs from the chain", db.rel, 0)
    consts = db.module_consts()
    mn = consts.get("REDUN_DB_MIN_VERSION")
    ok = isinstance(mn, ast.Call) and (mn.args[1].value, mn.args[2].value) <= versions[-1][1:]
    r1.check(ok, f"{db.rel}:REDUN_DB_MIN_VERSION", "the latest migration does not reach the minimum version the library requires", db.rel, 0)

    # ---- C36.2 destructive operations ----------------------------------------------
    r2 = ctx.rule("C36.2", "no destructive operation in any upgrade()", floor=11)
    added_cols: dict[str, dict[str, set]] = {}
    schema: dict[str, set] = {}
    for idx, rev in enumerate(chain):
        m, _ = revs[rev]
        up = m.funcs.get("upgrade")
        if up is None:
            raise AnalysisError(f"{rev}: upgrade() not found", rev)
        # include module-local helpers called from upgrade
        fns = [up]
        seen = {id(up)}
        work = [up]
        while work:
            f = work.pop()
            for c in calls_in(f):
                d = call_name(c) or ""
                if d in m.funcs and id(m.funcs[d]) not in seen and d != "downgrade":
                    seen.add(id(m.funcs[d]))
                    fns.append(m.funcs[d])
                    work.append(m.funcs[d])
        added_cols[rev] = {}
        created_here = set()
        bad = []
        for f in fns:
            # structural ops
            for w in ast.walk(f):
                if isinstance(w, (ast.With,)):
                    for it in w.items:
                        ce = it.context_expr
                        if isinstance(ce, ast.Call) and last_attr(ce) == "batch_alter_table":
                            tname = const_str(ce.args[0])
                            for c in calls_in(w):
                                la = last_attr(c)
                                if la == "add_column" and c.args and isinstance(c.args[0], ast.Call):
                                    col = const_str(c.args[0].args[0])
                                    added_cols[rev].setdefault(tname, set()).add(col)
                                    schema.setdefault(tname, set()).add(col)
                                elif la == "drop_column":
                                    bad.append((f"batch drop_column({src(c.args[0]) if c.args else ''}) on {tname}", c.lineno))
            for c in calls_in(f):
                d = call_name(c) or ""
                la = last_attr(c)
                if d == "op.create_table":
                    tname = const_str(c.args[0])
                    created_here.add(tname)
                    cols = {const_str(a.args[0]) for a in c.args[1:] if isinstance(a, ast.Call) and last_attr(a) == "Column" and a.args}
                    schema[tname] = set(cols)
                elif d == "op.add_column":
                    tname, colc = const_str(c.args[0]), c.args[1]
                    col = const_str(colc.args[0])
                    added_cols[rev].setdefault(tname, set()).add(col)
                    schema.setdefault(tname, set()).add(col)
                elif d == "op.drop_table":
                    tname = const_str(c.args[0])
                    if tname not in created_here:
                        bad.append((f"op.drop_table({tname!r})", c.lineno))
                elif d == "op.drop_column":
                    bad.append((f"op.drop_column({', '.join(src(a) for a in c.args)})", c.lineno))
                elif la == "delete" and ("session" in d or "query" in d):
                    bad.append((f"{d}()", c.lineno))
                elif la == "merge" and "session" in d:
                    # merge() overwrites the stored row that has the same primary key with the given object's columns
                    bad.append((f"{d}({src(c.args[0])[:40] if c.args else ''}) overwrites an existing row with the same primary key", c.lineno))
                elif la == "update" and c.args and isinstance(c.args[0], ast.Dict) and c.args[0].keys and all(isinstance(k, (ast.Attribute, ast.Constant)) for k in c.args[0].keys):
                    colnames = [k.attr if isinstance(k, ast.Attribute) else str(k.value) for k in c.args[0].keys]
                    allowed_any = set().union(*added_cols[rev].values()) if added_cols[rev] else set()
                    off = [x for x in colnames if x not in allowed_any]
                    if off:
                        bad.append((f"Query.update of pre-existing column(s) {off}", c.lineno))
            # ORM rows loaded from the database and modified in place
            loaded = set()
            for w in ast.walk(f):
                if isinstance(w, (ast.For, ast.comprehension)) and any(isinstance(q, ast.Call) and last_attr(q) == "query" for q in ast.walk(w.iter)):
                    loaded |= {n.id for n in ast.walk(w.target) if isinstance(n, ast.Name)}
                if isinstance(w, ast.For) and isinstance(w.iter, ast.Call) and (call_name(w.iter) or "") in m.funcs and any(isinstance(q, ast.Call) and last_attr(q) == "query" for q in ast.walk(m.funcs[call_name(w.iter)])):
                    loaded |= {n.id for n in ast.walk(w.target) if isinstance(n, ast.Name)}
            for w in ast.walk(f):
                if isinstance(w, (ast.Assign, ast.AugAssign)):
                    for tg in (w.targets if isinstance(w, ast.Assign) else [w.target]):
                        if isinstance(tg, ast.Attribute) and isinstance(tg.value, ast.Name) and tg.value.id in loaded:
                            allowed_any = set().union(*added_cols[rev].values()) if added_cols[rev] else set()
                            if tg.attr not in allowed_any:
                                bad.append((f"ORM row `{src(tg)}` of an existing table is modified in place", w.lineno))
            # SQL text
            for sql, line in _sql_strings(f):
                for st in _statements(sql):
                    mt = re.match(r"create (temp |temporary )?table (if not exists )?\"?(\w+)", st)
                    if mt:
                        created_here.add(mt.group(3))
                        continue
                    mt = re.match(r"drop table (if exists )?\"?(\w+)", st)
                    if mt:
                        if mt.group(2) not in created_here:
                            # `drop table if exists tmp` before creating it in the same function is checked after the loop
                            bad.append((f"SQL `{st[:50]}`", line, mt.group(2)))
                        continue
                    if re.match(r"delete from", st) or re.match(r"truncate", st):
                        tn = re.match(r"(delete from|truncate( table)?) \"?(\w+)", st)
                        if not tn or tn.group(3) not in created_here:
                            bad.append((f"SQL `{st[:50]}`", line))
                        continue
                    mt = re.match(r"alter table \"?(\w+)\"? (.*)", st)
                    if mt and re.search(r"drop column", mt.group(2)):
                        bad.append((f"SQL `{st[:60]}`", line))
                        continue
                    mt = re.match(r"update \"?(\w+)\"? set (.*?)( where .*)?$", st)
                    if mt:
                        tname = mt.group(1)
                        cols = _set_columns(mt.group(2))
                        prev = chain[idx - 1] if idx > 0 else None
                        allowed = set(added_cols[rev].get(tname, set())) | (set(added_cols.get(prev, {}).get(tname, set())) if prev else set())
                        if tname in created_here:
                            continue
                        offending = [c for c in cols if c not in allowed]
                        if offending:
                            bad.append((f"UPDATE {tname} SET {', '.join(offending)}", line))
        # resolve drop-before-create of scratch tables
        final_bad = []
        for b in bad:
            if len(b) == 3 and b[2] in created_here:
                continue
            final_bad.append(b[:2])
        if final_bad:
            for what, line in final_bad:
                key = re.sub(r"\s+", " ", what)[:90]
                r2.violation(f"{m.rel}:upgrade:{key}", f"revision {rev} upgrade() performs a destructive operation: {what}" + (" -- the columns exist before this revision, so values of existing rows are rewritten in place" if what.startswith("UPDATE") else ""), m.rel, line)
        else:
            r2.good(f"{m.rel}:upgrade", "no destructive operation")

    # ---- C36.4 back-fills cover every row they assign -----------------------------------
    r4 = ctx.rule("C36.4", "a back-fill UPDATE from a scratch table covers every row it assigns", floor=1)
    if backfill_coverage(r4, revs, chain) < 1:
        raise AnalysisError("no `update T set c = (select .. from <scratch table>)` back-fill found in the migrations", "tmp_ancestors")

    # ---- C36.3 folded schema == ORM ---------------------------------------------------
    r3 = ctx.rule("C36.3", "folded migration schema equals the declarative models (tables and column names)", floor=10)
    orm: dict[str, set] = {}
    for cname, c in db.classes.items():
        tn = None
        cols = set()
        for st in c.body:
            if isinstance(st, ast.Assign) and isinstance(st.targets[0], ast.Name):
                if st.targets[0].id == "__tablename__":
                    tn = const_str(st.value)
                elif isinstance(st.value, ast.Call) and call_name(st.value) == "Column":
                    cols.add(st.targets[0].id)
        if tn:
            orm[tn] = cols
    # alembic's own bookkeeping table is created by alembic itself, not by a revision
    ALEMBIC_OWN = {"alembic_version"}
    for tn in sorted((set(orm) | set(schema)) - ALEMBIC_OWN):
        if tn not in schema:
            r3.violation(f"{db.rel}:table {tn}:not-migrated", f"model table `{tn}` is created by no migration", db.rel, 0)
        elif tn not in orm:
            r3.violation(f"{VERS}:table {tn}:no-model", f"migrations create table `{tn}` which has no declarative model", VERS, 0)
        else:
            diff = orm[tn] ^ schema[tn]
            r3.check(not diff, f"{db.rel}:table {tn}:columns", f"columns differ between model and folded migrations for `{tn}`: {sorted(diff)}", db.rel, 0)
    ctx.extra["folded_schema"] = {k: sorted(x for x in v if x) for k, v in schema.items()}
    ctx.extra["chain"] = chain


def backfill_coverage(rule, revs, chain):
    """`update T set c = (select .. from S ..)` without an outer WHERE assigns *every* row of T; rows with no match in S get NULL.  When S is a scratch
    table built in the same upgrade(), its defining query therefore must not filter rows away (a WHERE in it) unless the UPDATE carries the same predicate."""
    n = 0
    for rev in chain:
        m, _ = revs[rev]
        up = m.funcs.get("upgrade")
        if up is None:
            continue
        stmts = [(st, line) for sql, line in _sql_strings(up) for st in _statements(sql)]
        scratch = {}
        for st, line in stmts:
            mt = re.match(r"create (temp |temporary )?table (if not exists )?\"?(\w+)\"? as (.*)$", st)
            if mt:
                scratch[mt.group(3)] = (mt.group(4), line)
        for st, line in stmts:
            mt = re.match(r"update \"?(\w+)\"? set \"?(\w+)\"? = \(\s*(select .*)\)( where (.*))?$", st)
            if not mt:
                continue
            tname, col, sub, outer_where = mt.group(1), mt.group(2), mt.group(3), mt.group(5)
            src_tables = [s for s in scratch if re.search(rf"\bfrom {s}\b", sub)]
            for s in src_tables:
                n += 1
                definition, dline = scratch[s]
                preds = [re.sub(r"\b\w+\.", "", p).strip() for p in re.findall(r"\bwhere (.*?)(?= union | group by | order by |\)|$)", definition)]
                ow = re.sub(r"\b\w+\.", "", outer_where).strip() if outer_where else None
                uncovered = [p for p in preds if p and p != ow]
                rule.check(
                    not uncovered,
                    f"{m.rel}:upgrade:backfill:{tname}.{col}<-{s}",
                    f"revision {rev}: `update {tname} set {col} = (select .. from {s} ..)` assigns every row of {tname}"
                    + (f" matching `{ow}`" if ow else "")
                    + f", but the scratch table {s} is built only from rows where `{'; '.join(uncovered)}`: rows left out get {col} = NULL (existing values are erased; "
                    "a following NOT NULL alteration then fails and the database cannot be upgraded)",
                    m.rel,
                    dline,
                )
    return n
