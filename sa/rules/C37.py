"""C37 -- the task registry stays consistent (structural clauses).

Paired update of the name table and the hash-count table on every path of every
registry method, ownership of both tables, the hash used after a rename, and the
order of hide-then-create in wraps_task.
"""

from __future__ import annotations

import ast
import re

from ..cfg import CFG, facts_at
from ..core import AnalysisError, FuncNode, assigned_targets, call_name, calls_in, kwarg, last_attr, names_in, src

EXPLANATION = (
    "C37.1 in every TaskRegistry method each removal from _tasks is followed on all paths by _decrement_hash_count of the removed task and "
    "each insertion is paired with an increment of that task's hash count; _decrement_hash_count removes at 1 and otherwise subtracts "
    "exactly 1; task_hashes = keys with positive count; C37.2 both tables are written only inside TaskRegistry (repo-wide, keyed by "
    "receiver); C37.3 rename re-registers the task under the hash of its new identity (recompute_hash between mutation and add); "
    "C37.4 wraps_task saves the visible name, hides the inner task under '<ns>.<wrapper>' before creating the visible task with the saved name. C37.1 also requires every insertion `_tasks[k] = v` to be dominated by a pop of the same key k (the displaced task is decremented by the removal rule)."
)

TASK = "redun/task.py"


def run(ctx):
    repo = ctx.repo
    m = repo.mod(TASK)
    cls = m.cls("TaskRegistry")
    methods = {st.name: st for st in cls.body if isinstance(st, FuncNode)}

    r1 = ctx.rule("C37.1", "name table and hash-count table are updated in pairs on every path", floor=5)
    for name, fn in methods.items():
        if name == "__init__":
            continue
        cfg = CFG(fn)
        for n in cfg.nodes:
            if n.kind != "stmt" or n.ast is None:
                continue
            a = n.ast
            # removals
            for c in [x for x in ast.walk(a) if isinstance(x, ast.Call)] if not isinstance(a, (FuncNode, ast.ClassDef)) else []:
                if call_name(c) == "self._tasks.pop" and cfg.node_of(c) is n:
                    var = None
                    if isinstance(a, ast.Assign) and isinstance(a.targets[0], ast.Name):
                        var = a.targets[0].id
                    decs = [cfg.node_of(d) for d in calls_in(fn, shallow=True) if call_name(d) == "self._decrement_hash_count" and d.args and var and src(d.args[0]) == var]
                    ok = False
                    if var and decs:
                        # every path to exit passes a decrement, or the false edge of `if <var>` (nothing was removed)
                        through = set(decs)
                        if len(c.args) == 2:  # pop with default: removal may not have happened
                            for t in cfg.nodes:
                                if t.kind == "test" and isinstance(t.ast, ast.Name) and t.ast.id == var:
                                    through.update(cfg.edge_nodes(t, "F"))
                        ok = cfg.must_pass(n, through)
                    r1.check(ok, f"{m.rel}:TaskRegistry.{name}:remove", "a task removed from _tasks is not passed to _decrement_hash_count on every path", m.rel, a.lineno)
            # insertions
            if isinstance(a, ast.Assign):
                for t in a.targets:
                    if isinstance(t, ast.Subscript) and src(t.value) == "self._tasks":
                        tv = src(a.value)
                        incs = [x for x in cfg.nodes if x.kind == "stmt" and isinstance(x.ast, ast.AugAssign) and isinstance(x.ast.op, ast.Add) and src(x.ast.target) == f"self._task_hash_counts[{tv}.hash]" and src(x.ast.value) == "1"]
                        ok = bool(incs) and cfg.must_pass(n, incs) and src(t.slice) == f"{tv}.fullname"
                        # the entry previously stored under the same key is displaced: it must have been popped (and, by the removal rule, decremented) first
                        key = src(t.slice)
                        pops_same = [x for x in cfg.nodes if x.kind == "stmt" and any(isinstance(c, ast.Call) and call_name(c) == "self._tasks.pop" and c.args and src(c.args[0]) == key for c in ast.walk(x.ast))]
                        r1.check(
                            any(cfg.dominates(x, n) for x in pops_same),
                            f"{m.rel}:TaskRegistry.{name}:displace",
                            f"`{src(a)}` may overwrite another task registered under {key} without popping it first: the displaced task's hash stays counted, so task_hashes keeps a hash of a task the registry no longer holds",
                            m.rel,
                            a.lineno,
                        )
                        r1.check(ok, f"{m.rel}:TaskRegistry.{name}:insert", "an insertion into _tasks is not keyed by the task's fullname and paired with `_task_hash_counts[task.hash] += 1` on every path", m.rel, a.lineno)
    dec = methods.get("_decrement_hash_count")
    if dec is None:
        raise AnalysisError("TaskRegistry._decrement_hash_count not found", "TaskRegistry._decrement_hash_count")
    p = dec.args.args[1].arg
    t = src(dec)
    ok = f"self._task_hash_counts.pop({p}.hash)" in t and f"self._task_hash_counts[{p}.hash] = count - 1" in t and "count == 1" in t
    r1.check(ok, f"{m.rel}:TaskRegistry._decrement_hash_count", "decrement does not remove the entry at count 1 and subtract exactly one otherwise", m.rel, dec.lineno)
    th = methods.get("task_hashes")
    ok = th is not None and any(isinstance(n, ast.Return) and isinstance(n.value, ast.SetComp) and "self._task_hash_counts.items()" in src(n.value) and "count > 0" in src(n.value) for n in ast.walk(th))
    r1.check(bool(ok), f"{m.rel}:TaskRegistry.task_hashes", "task_hashes is not {hash for hash, count in counts if count > 0}", m.rel, getattr(th, "lineno", 0))
    get = methods.get("get")
    ok = get is not None and "self._tasks.get(task_name)" in src(get)
    r1.check(ok, f"{m.rel}:TaskRegistry.get", "lookup by name does not read the name table", m.rel, getattr(get, "lineno", 0))

    r2 = ctx.rule("C37.2", "_tasks / _task_hash_counts of the registry are written only inside TaskRegistry", floor=1)
    MUT = {"pop", "clear", "update", "setdefault", "popitem", "__setitem__", "__delitem__"}
    nwrites = 0
    for mod in repo.modules.values():
        for n in ast.walk(mod.tree):
            recv = None
            if isinstance(n, (ast.Assign, ast.AugAssign, ast.Delete, ast.AnnAssign)):
                tg = n.targets if isinstance(n, (ast.Assign, ast.Delete)) else [n.target]
                for t in tg:
                    base = t.value if isinstance(t, ast.Subscript) else t
                    if isinstance(base, ast.Attribute) and base.attr in ("_tasks", "_task_hash_counts"):
                        recv = base
            elif isinstance(n, ast.Call) and isinstance(n.func, ast.Attribute) and n.func.attr in MUT and isinstance(n.func.value, ast.Attribute) and n.func.value.attr in ("_tasks", "_task_hash_counts"):
                recv = n.func.value
            if recv is None:
                continue
            owner = mod.enclosing_class(n)
            rtxt = src(recv.value)
            if rtxt == "self" and owner is not None and owner.name != "TaskRegistry" and recv.attr == "_tasks":
                continue  # another class's own `_tasks` (e.g. CallGraphQuery): different receiver class
            nwrites += 1
            inside = mod.rel == TASK and owner is not None and owner.name == "TaskRegistry" and rtxt == "self"
            r2.check(inside, f"{mod.rel}:{mod.enclosing_qual(n)}:{rtxt}.{recv.attr}", f"registry table written outside TaskRegistry: {src(n)[:80]}", mod.rel, n.lineno)
    if nwrites < 4:
        raise AnalysisError(f"only {nwrites} writes of registry tables recognised", "TaskRegistry")

    r3 = ctx.rule("C37.3", "a registered task's hash never changes while it is counted: rehash only between decrement and re-add", floor=2)
    rn = methods.get("rename")
    if rn is None:
        raise AnalysisError("TaskRegistry.rename not found", "TaskRegistry.rename")
    cfg = CFG(rn)
    muts = [n for n in cfg.nodes if n.kind == "stmt" and isinstance(n.ast, ast.Assign) and any(isinstance(t, ast.Attribute) and t.attr in ("name", "namespace") for t in n.ast.targets)]
    adds = [cfg.node_of(c) for c in calls_in(rn, shallow=True) if call_name(c) == "self.add"]
    if not muts:
        raise AnalysisError("rename: assignment of the new name/namespace not found", "TaskRegistry.rename")
    # how the renamed task gets back into the tables (self.add or a direct insertion) is judged by C37.1's pairing rules
    # (a) counts use one attribute: add increments [task.hash], decrement reads task.hash (checked in C37.1)
    # (b) every write of a task's .hash / call of recompute_hash in the repo is in Task.__init__/__setstate__/recompute_hash,
    #     or inside a registry method strictly between the decrement of that task and its re-add.
    for mod in repo.modules.values():
        for q, fn in mod.funcs.items():
            for n in ast.walk(fn):
                if mod.enclosing_func(n) is not fn:
                    continue
                hit = None
                if isinstance(n, ast.Call) and last_attr(n) == "recompute_hash":
                    hit = src(n.func.value) if isinstance(n.func, ast.Attribute) else None
                elif isinstance(n, ast.Assign):
                    for t in n.targets:
                        if isinstance(t, ast.Attribute) and t.attr == "hash" and mod.rel == TASK:
                            hit = src(t.value)
                if hit is None:
                    continue
                if mod.rel == TASK and q in ("Task.__init__", "Task.__setstate__", "Task.recompute_hash", "PartialTask.__setstate__") and hit == "self":
                    r3.good(f"{mod.rel}:{q}:hash-write", "unregistered object under construction")
                    continue
                ok = False
                if mod.rel == TASK and q.startswith("TaskRegistry."):
                    c2 = CFG(fn)
                    node = c2.node_of(n)
                    decs = [c2.node_of(d) for d in calls_in(fn, shallow=True) if call_name(d) == "self._decrement_hash_count" and d.args and src(d.args[0]) == hit]
                    readds = [c2.node_of(d) for d in calls_in(fn, shallow=True) if call_name(d) == "self.add" and d.args and src(d.args[0]) == hit]
                    ok = bool(decs) and bool(readds) and any(c2.dominates(d, node) for d in decs) and c2.must_pass(node, readds)
                r3.check(ok, f"{mod.rel}:{q}:{hit}.hash-changes", f"`{src(n)[:60]}` changes the hash of a possibly registered task outside the decrement/re-add bracket: the hash counts drift from the held tasks", mod.rel, n.lineno)
    # removal happens under the old name before mutation
    pops = [n for n in cfg.nodes if n.kind == "stmt" and any(call_name(c) == "self._tasks.pop" for c in ast.walk(n.ast) if isinstance(c, ast.Call))]
    ok = bool(pops) and all(cfg.dominates(pops[0], mu) for mu in muts)
    if pops and not ok:
        # conditional removal: skipped only when the registry's holder of the old name is not the object being renamed (then there is nothing to remove)
        obj = {src(t.value) for mu in muts for t in mu.ast.targets if isinstance(t, ast.Attribute)}
        gif = m.parent.get(pops[0].ast)
        if isinstance(gif, ast.If) and len(obj) == 1:
            o = next(iter(obj))
            disj = gif.test.values if isinstance(gif.test, ast.BoolOp) and isinstance(gif.test.op, ast.Or) else [gif.test]
            texts = [src(d) for d in disj]
            ok = any(re.fullmatch(rf"self\._tasks\.get\(\w+\) is {re.escape(o)}", t) for t in texts) and all(t == f"{o} is None" or re.fullmatch(rf"self\._tasks\.get\(\w+\) is {re.escape(o)}", t) for t in texts) and not gif.orelse
    r3.check(ok, f"{m.rel}:TaskRegistry.rename:pop-before-mutate", "the task is not removed under its old name before being renamed", m.rel, rn.lineno)

    r4 = ctx.rule("C37.4", "wraps_task: save visible name, hide inner task, then create the visible task with the saved name", floor=3)
    ct = m.funcs.get("wraps_task.transform_wrapper.create_tasks")
    if ct is None:
        raise AnalysisError("wraps_task.transform_wrapper.create_tasks not found", "wraps_task")
    pos = {}
    for n in ast.walk(ct):
        if m.enclosing_func(n) is not ct:
            continue
        if isinstance(n, ast.Assign) and src(n.targets[0]) in ("visible_name", "visible_namespace"):
            pos[src(n.targets[0])] = (n.lineno, src(n.value))
        if isinstance(n, ast.Expr) and isinstance(n.value, ast.Call) and call_name(n.value) == "recursive_rename":
            pos["rename"] = (n.lineno, src(n.value))
        if isinstance(n, ast.Call) and call_name(n) == "task" and kwarg(n, "name") is not None:
            pos["create"] = (n.lineno, src(kwarg(n, "name")) + "|" + src(kwarg(n, "namespace")) + "|" + src(kwarg(n, "wrapped_task")))
    ok = all(k in pos for k in ("visible_name", "visible_namespace", "rename", "create"))
    if ok:
        ok = pos["visible_name"][0] < pos["rename"][0] < pos["create"][0] and pos["visible_namespace"][0] < pos["rename"][0]
        ok = ok and pos["visible_name"][1] == "hidden_inner_task.name" and pos["visible_namespace"][1] == "hidden_inner_task.namespace"
    r4.check(ok, f"{m.rel}:wraps_task:order", "visible name is not saved before the inner task is hidden, or hiding does not precede creation", m.rel, ct.lineno)
    ok = "create" in pos and pos["create"][1] == "visible_name|visible_namespace|hidden_inner_task.fullname"
    r4.check(ok, f"{m.rel}:wraps_task:visible-task", "the visible task is not created with the saved name/namespace and a reference to the hidden task's new fullname", m.rel, ct.lineno)
    rr = m.funcs.get("wraps_task.transform_wrapper.create_tasks.recursive_rename")
    renames = [c for c in calls_in(rr) if last_attr(c) == "rename"] if rr is not None else []
    ok = rr is not None and 'f"{task_.namespace}.{suffix}"' in src(rr).replace("'", '"') and "new_namespace = suffix" in src(rr) and bool(renames) and all(kwarg(c, "new_namespace") is not None and src(kwarg(c, "new_namespace")) == "new_namespace" for c in renames)
    r4.check(bool(ok), f"{m.rel}:wraps_task:inner-namespace", "the hidden task does not move to '<namespace>.<wrapper>' (or '<wrapper>' when it had none) through TaskRegistry.rename", m.rel, getattr(rr, "lineno", 0))

    # ---- C37.5 the by-name rename moves the task being wrapped -------------------------------
    # TaskRegistry.rename(old_name, ...) pops and mutates whatever object is registered under old_name.  recursive_rename is handed a Task *object*;
    # when that object no longer owns its name (displaced by a same-name redefinition) the by-name rename would move the unrelated replacement.
    r5 = ctx.rule("C37.5", "wraps_task renames by name only after checking that the registry holds the very task being wrapped", floor=1)
    if rr is None or not renames:
        raise AnalysisError("recursive_rename / its rename call not found", "wraps_task")
    rcfg = CFG(rr)
    tparam = rr.args.args[0].arg
    for c in renames:
        facts = facts_at(rcfg, rcfg.node_of(c))
        ident = [f for f, t in facts if t and re.search(rf"\.get\(.*\) is {tparam}$", f)]
        # or: the task object is handed to TaskRegistry.rename, which removes the holder of the name only when it is that object
        passed = kwarg(c, "task")
        if not ident and passed is not None and src(passed) == tparam:
            rn = m.func("TaskRegistry.rename")
            ncfg = CFG(rn)
            rparams = [a.arg for a in rn.args.args]
            pops = [x for x in calls_in(rn) if src(x.func) == "self._tasks.pop"]
            if "task" in rparams and pops and all(any(t and re.search(r"self\._tasks\.get\(.*\) is task$", f) for f, t in _or_facts(ncfg, ncfg.node_of(x))) for x in pops):
                ident = ["TaskRegistry.rename(task=...) guards its pop with `self._tasks.get(old_name) is task`"]
        r5.check(
            bool(ident),
            f"{m.rel}:wraps_task:rename-identity",
            f"recursive_rename calls `{src(c)[:70]}` for `{tparam}` without testing `<registry>.get(task_name=...) is {tparam}`: wrapping a Task object that a same-name redefinition has displaced "
            "moves the replacement into the wrapper's inner namespace (the original never moves), and the new wrapper's wrapped_task option names the wrapper itself",
            m.rel,
            c.lineno,
        )


def _or_facts(cfg, node):
    """facts_at plus the second disjunct of a dominating `X is None or B` test taken on its true edge (with X given, B is what holds)."""
    out = set(facts_at(cfg, node))
    for d in cfg.dominators().get(node, ()):
        if d.kind == "edge" and d.label == "T" and isinstance(d.test.ast, ast.BoolOp) and isinstance(d.test.ast.op, ast.Or):
            vals = d.test.ast.values
            if len(vals) == 2 and src(vals[0]).endswith("is None"):
                out.add((src(vals[1]), True))
    return out
