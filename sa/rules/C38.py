"""C38 -- sub-scheduler runs (structural clauses).

The subrun never accepts a single-reduction cache entry for itself, extending
the current execution records the sub-execution's jobs under the calling job,
and results/errors are passed through unchanged.  Equivalence of results is not
decided.
"""

from __future__ import annotations

import ast

from ..core import AnalysisError, call_name, calls_in, const_str, decorator_call, kwarg, last_attr, src

EXPLANATION = (
    "C38.1 the options of the subrun root task contain allowed_cache_results as a set display without CacheResult.SINGLE, and user task_options "
    "cannot silently re-enable it only if they pass the key explicitly (listed); the root task is CSE-scoped with shallow validity; C38.2 when not "
    "new_execution, extend_run receives parent_job_id=job_info.job_id where job_info is a JobInfo placeholder default replaced per job by "
    "include_job_info; extend_run builds its stand-in parent with that id and the parent's execution id; new executions are forced when provenance "
    "is off and get fresh (re-pickled) expressions; C38.3 subrun's continuation returns the result, re-raises the error and never swallows; "
    "the root task re-raises nothing itself in extend mode (errors travel in the result dict)."
)

SCHED = "redun/scheduler.py"


def run(ctx):
    repo = ctx.repo
    m = repo.mod(SCHED)
    sr = m.func("subrun")
    rt = m.func("_subrun_root_task")

    r1 = ctx.rule("C38.1", "subrun never replays a single-reduction entry for itself", floor=3)
    acr = None
    for n in ast.walk(sr):
        if isinstance(n, ast.Dict):
            for k, v in zip(n.keys, n.values):
                if k is not None and const_str(k) == "allowed_cache_results":
                    acr = v
    ok = isinstance(acr, ast.Set) and acr.elts and all(src(e).startswith("CacheResult.") for e in acr.elts) and "CacheResult.SINGLE" not in [src(e) for e in acr.elts]
    r1.check(bool(ok), f"{m.rel}:subrun:allowed_cache_results", f"subrun's root task may accept {src(acr) if acr is not None else None}: a SINGLE (evaluation cache) entry would replay the sub-scheduler's unevaluated result", m.rel, sr.lineno)
    opt = [c for c in calls_in(sr) if (call_name(c) or "") == "_subrun_root_task.options"]
    ok = len(opt) == 1 and any(k.arg is None and src(k.value) == "all_options" for k in opt[0].keywords) and kwarg(opt[0], "executor") is not None
    r1.check(ok, f"{m.rel}:subrun:options", "the root task is not invoked with the collected cache options and the requested executor", m.rel, sr.lineno)
    dec = decorator_call(rt, "task")
    kws = {k.arg: src(k.value) for k in dec.keywords} if isinstance(dec, ast.Call) else {}
    ok = kws.get("cache_scope") == "CacheScope.CSE" and kws.get("check_valid") == "CacheCheckValid.SHALLOW" and "'run_config'" in kws.get("config_args", "")
    r1.check(ok, f"{m.rel}:_subrun_root_task:decorator", f"the root task is not execution-scoped/shallow with the run configuration as config args ({kws})", m.rel, rt.lineno)
    gc = m.func("Scheduler._get_cache")
    ok = "allowed_cache_results" in src(gc) and any(call_name(c) == "self.backend.check_cache" and "allowed_cache_results" in [src(a) for a in c.args] for c in calls_in(gc))
    r1.check(ok, f"{m.rel}:Scheduler._get_cache:allowed_cache_results", "the job's allowed_cache_results option is not passed to the backend cache check", m.rel, gc.lineno)

    r2 = ctx.rule("C38.2", "extending the current execution attaches the sub-execution under the calling job", floor=4)
    ok = any(call_name(c) == "sub_scheduler.extend_run" and kwarg(c, "parent_job_id") is not None and src(kwarg(c, "parent_job_id")) == "job_info.job_id" for c in calls_in(rt))
    r2.check(ok, f"{m.rel}:_subrun_root_task:extend_run", "extend_run is not given the calling job's id", m.rel, rt.lineno)
    params = {a.arg: d for a, d in zip(rt.args.args[-len(rt.args.defaults):], rt.args.defaults)}
    ok = "job_info" in params and src(params["job_info"]) == "JobInfo()"
    r2.check(ok, f"{m.rel}:_subrun_root_task:job_info-default", "job_info is not a JobInfo() placeholder default", m.rel, rt.lineno)
    ex = m.func("Scheduler._exec_job_main_thread")
    ok = "JobInfo.from_job(job) if isinstance(value, JobInfo) else value" in src(ex)
    r2.check(ok, f"{m.rel}:Scheduler._exec_job_main_thread:include_job_info", "JobInfo placeholders are not replaced by the executing job's info", m.rel, ex.lineno)
    er = m.func("Scheduler.extend_run")
    t = src(er)
    ok = "self.backend.get_job(parent_job_id)" in t and "Execution(parent_job_details['execution_id'])" in t and any(call_name(c) == "Job" and src(kwarg(c, "id")) == "parent_job_id" and src(kwarg(c, "execution")) == "self._current_execution" for c in calls_in(er))
    r2.check(ok, f"{m.rel}:Scheduler.extend_run:parent", "the stand-in parent job does not carry the given job id and the parent's execution", m.rel, er.lineno)
    ok = any(isinstance(n, ast.If) and src(n.test) == "not parent_job.recording_provenance()" and any(src(b) == "new_execution = True" for b in n.body) for n in ast.walk(sr))
    r2.check(ok, f"{m.rel}:subrun:force-new-execution", "a new execution is not forced when provenance recording is off", m.rel, sr.lineno)
    ok = "expr_eval = pickle_loads(pickle_dumps(expr_eval))" in src(rt)
    r2.check(ok, f"{m.rel}:_subrun_root_task:fresh-expressions", "a new execution does not get fresh expression objects (bookkeeping would be shared with the parent scheduler)", m.rel, rt.lineno)
    bd = repo.mod("redun/backends/db/__init__.py").func("RedunBackendDb.record_job_start")
    ok = "parent_id=job.parent_job.id if job.parent_job else None" in src(bd)
    r2.check(ok, f"redun/backends/db/__init__.py:RedunBackendDb.record_job_start:parent_id", "a job row does not record its parent job's id", "redun/backends/db/__init__.py", bd.lineno)

    r3 = ctx.rule("C38.3", "results and errors pass through subrun unchanged", floor=3)
    th = m.funcs.get("subrun.then")
    if th is None:
        raise AnalysisError("subrun.then not found", "subrun")
    arms = [(src(n.test), [src(b) for b in n.body]) for n in ast.walk(th) if isinstance(n, ast.If)]
    d = dict(arms)
    ok = d.get("'result' in subrun_result") == ["return subrun_result['result']"] and d.get("'error' in subrun_result") == ["raise subrun_result['error']"]
    r3.check(ok, f"{m.rel}:subrun.then:passthrough", f"the continuation does not return the sub-result / re-raise the sub-error ({arms})", m.rel, th.lineno)
    ok = not any(isinstance(n, ast.Try) for n in ast.walk(th))
    r3.check(ok, f"{m.rel}:subrun.then:no-swallow", "the continuation contains a try/except that could swallow the sub-scheduler's error", m.rel, th.lineno)
    ret = [r for r in ast.walk(sr) if isinstance(r, ast.Return) and m.enclosing_func(r) is sr]
    ok = len(ret) == 1 and src(ret[0].value) == "scheduler.evaluate(subrun_root_task_expr, parent_job=parent_job).then(then)"
    r3.check(ok, f"{m.rel}:subrun:return", "subrun does not return evaluate(root task expression).then(continuation)", m.rel, sr.lineno)
    ok = "subrun_result['result'] = result" in src(rt) and "subrun_result.update(result)" in src(rt)
    r3.check(ok, f"{m.rel}:_subrun_root_task:result", "the root task does not return the sub-scheduler's result (new execution) / result dict (extended execution)", m.rel, rt.lineno)
    t = src(er)
    ok = "'error': result.error" in t and "'result': result.value" in t
    r3.check(ok, f"{m.rel}:Scheduler.extend_run:outcome", "extend_run does not report the fulfilled value / rejection error of the sub-workflow", m.rel, er.lineno)

    # ---- C38.4 run settings reach the sub-scheduler in both modes ---------------------------
    r4 = ctx.rule("C38.4", "every run setting collected by subrun is forwarded to the sub-scheduler in both execution modes", floor=4)
    rc = next((n for n in ast.walk(sr) if isinstance(n, (ast.Assign, ast.AnnAssign)) and src(n.targets[0] if isinstance(n, ast.Assign) else n.target) == "run_config" and isinstance(n.value, ast.Dict)), None)
    if rc is None:
        raise AnalysisError("subrun: `run_config = {...}` not found", "subrun")
    keys = [const_str(k) for k in rc.value.keys if k is not None]
    if len(keys) < 2:
        raise AnalysisError(f"subrun: run_config has keys {keys}", "subrun")
    rparam = "run_config"
    sub_calls = [c for c in calls_in(rt) if isinstance(c.func, ast.Attribute) and c.func.attr in ("run", "extend_run") and src(c.func.value) == "sub_scheduler"]
    if len(sub_calls) < 2:
        raise AnalysisError(f"_subrun_root_task: expected sub_scheduler.run and sub_scheduler.extend_run, found {[src(c.func) for c in sub_calls]}", "_subrun_root_task")
    for c in sub_calls:
        splat = any(kw.arg is None and src(kw.value) == rparam for kw in c.keywords)
        for k in keys:
            explicit = any(
                kw.arg == k and any(
                    (isinstance(x, ast.Subscript) and src(x.value) == rparam and const_str(x.slice) == k)
                    or (isinstance(x, ast.Call) and src(x.func) == f"{rparam}.get" and x.args and const_str(x.args[0]) == k)
                    for x in ast.walk(kw.value)
                )
                for kw in c.keywords
            )
            r4.check(
                splat or explicit,
                f"{m.rel}:_subrun_root_task:{src(c.func)}:{k}",
                f"`{src(c.func)}(...)` at line {c.lineno} does not receive run setting `{k}` collected by subrun(): the sub-scheduler runs with its own default for it, so "
                "subrun(expr) behaves differently from evaluating expr directly (e.g. cache=False is ignored and a stale cached result is returned)",
                m.rel,
                c.lineno,
            )
    # and the settings are the calling scheduler's own
    vals = {const_str(k): src(v) for k, v in zip(rc.value.keys, rc.value.values) if k is not None}
    r4.check(vals.get("dryrun") == "scheduler._dryrun" and vals.get("cache") == "scheduler._use_cache", f"{m.rel}:subrun:run_config-values", f"run_config does not carry the calling scheduler's dryrun/cache settings: {vals}", m.rel, rc.lineno)

    # ---- C38.5 code changes inside the sub-workflow invalidate the cached subrun -------------------
    # _subrun_root_task is replayed by ULTIMATE reduction under a SHALLOW validity check: the backend compares the CallSubtreeTask rows of its
    # call node with the current task hashes.  Those rows come from Job.subtree_tasks, which only the *parent* scheduler's jobs feed; the
    # tasks executed by the sub-scheduler never reach it unless the result carries them back.  (Expression hashes use task names, not task
    # hashes, so the arguments of _subrun_root_task do not change with the code either.)
    r5 = ctx.rule("C38.5", "tasks executed by the sub-scheduler are part of the cached subrun's subtree (or ultimate reduction is not allowed)", floor=1)
    ao = next((n for n in ast.walk(sr) if isinstance(n, (ast.Assign, ast.AnnAssign)) and src(n.targets[0] if isinstance(n, ast.Assign) else n.target) == "all_options" and isinstance(n.value, ast.Dict)), None)
    if ao is None:
        raise AnalysisError("subrun: `all_options = {...}` not found", "subrun")
    acr = next((src(v) for k, v in zip(ao.value.keys, ao.value.values) if k is not None and const_str(k) == "allowed_cache_results"), "")
    ultimate = "ULTIMATE" in acr
    carries = any(("subtree" in src(n) or "task_hashes" in src(n)) for n in ast.walk(rt) if isinstance(n, (ast.Assign, ast.Subscript, ast.Dict)))
    merges = any("subtree_tasks" in src(n) for n in ast.walk(sr) if isinstance(n, (ast.Call, ast.Assign, ast.AugAssign)))
    expr_hash_uses_task_hash = "self.task.hash" in src(repo.mod("redun/expression.py").func("TaskExpression._calc_hash")) or "task_hash" in src(repo.mod("redun/expression.py").func("TaskExpression._calc_hash"))
    r5.check(
        (not ultimate) or (carries and merges) or expr_hash_uses_task_hash,
        f"{m.rel}:_subrun_root_task:ultimate-cache-without-subtree",
        f"subrun allows {acr} for _subrun_root_task with a shallow validity check, but neither does _subrun_root_task return the hashes of the tasks the sub-scheduler "
        "executed nor does subrun add them to the calling job's subtree_tasks, and the quoted expression argument is hashed by task *name*: after the code of a task inside the "
        "sub-workflow changes, the recorded call node still lists only subrun_root_task, the shallow check passes and the stale result is replayed (direct evaluation re-runs the changed task)",
        m.rel,
        ao.lineno,
    )

    # ---- C38.6 cache options manufactured for _subrun_root_task respect what the caller exports ----
    # subrun turns its cache options into explicit call-time options of _subrun_root_task; call-time options outrank the options exported by the
    # calling job.  A value taken from subrun's own definition-time default must therefore be looked up *below* parent_job.get_export_options().
    r6 = ctx.rule("C38.6", "subrun's own cache-option defaults rank below the options exported by the calling job", floor=2)
    ao = next((n for n in ast.walk(sr) if isinstance(n, (ast.Assign, ast.AnnAssign)) and src(n.targets[0] if isinstance(n, ast.Assign) else n.target) == "all_options" and isinstance(n.value, ast.Dict)), None)
    if ao is None:
        raise AnalysisError("subrun: `all_options = {...}` not found", "subrun")
    locals_ = {src(a.targets[0]): a.value for a in ast.walk(sr) if isinstance(a, ast.Assign) and len(a.targets) == 1 and isinstance(a.targets[0], ast.Name)}
    nopt = 0
    for k, v in zip(ao.value.keys, ao.value.values):
        key = const_str(k)
        if key not in ("cache_scope", "check_valid"):
            continue
        nopt += 1
        layers = None
        for x in ast.walk(v):
            if isinstance(x, ast.Name) and isinstance(locals_.get(x.id), ast.Dict) and all(kk is None for kk in locals_[x.id].keys):
                layers = [src(e) for e in locals_[x.id].values]
        text = src(v)
        uses_default = "subrun.get_task_option" in text or (layers is not None and any("subrun.get_task_option" in e for e in layers))
        ok = True
        if uses_default:
            if layers is None:
                ok = "get_export_options()" in text and text.index("get_export_options()") < text.index("subrun.get_task_option")
            else:
                idx = {name: next((i for i, e in enumerate(layers) if name in e), None) for name in ("subrun.get_task_option", "get_export_options()", "sexpr._options")}
                ok = idx["get_export_options()"] is not None and idx["subrun.get_task_option"] < idx["get_export_options()"] and (idx["sexpr._options"] is None or idx["get_export_options()"] < idx["sexpr._options"])
        r6.check(
            ok,
            f"{m.rel}:subrun:{key}:default-below-exports",
            f"subrun passes `{key}` = `{text[:80]}` to _subrun_root_task as a call-time option; its own definition-time default is used whenever the subrun expression carries no `{key}`, and as a "
            "call-time option it outranks what the calling job exports: under parent.export_options(cache=False) a sub-workflow is answered from the cache while the same expression evaluated directly re-runs",
            m.rel,
            v.lineno,
        )
    if nopt < 2:
        raise AnalysisError("subrun: all_options no longer sets cache_scope and check_valid", "subrun")

    # ---- C38.7 no helper on the subrun path is replayed wholesale, except the documented ones ----
    # A task that is validated SHALLOW is answered by ultimate reduction: its whole sub-tree is replaced by the recorded final value, including
    # `cache=False` tasks beneath it that a direct evaluation (FULL validation of every level) would run again.  Library-internal tasks that take a
    # QuotedExpression and merely forward it sit between subrun and the user's expression; making one of them SHALLOW changes what subrun returns.
    r7 = ctx.rule("C38.7", "library-internal tasks with check_valid=SHALLOW are exactly the documented ones", floor=3)
    SHALLOW_OK = {
        ("redun/scheduler.py", "_subrun_root_task"): "the sub-scheduler's root: documented, its consequences are C38.5/C12.5 (known findings)",
        ("redun/scheduler.py", "subrun"): "the scheduler task itself (passes its cache options on; C38.6)",
        ("redun/functools.py", "_no_prov"): "documented: prov=False subtree is replayed as a whole",
        ("redun/scripting.py", "_script"): "documented: a script command is replayed when its outputs are valid",
    }
    nsh = 0
    for mod in repo.modules.values():
        if mod.rel.startswith("redun/tests") or not mod.rel.startswith("redun/"):
            continue
        for q, fn in mod.funcs.items():
            for d in getattr(fn, "decorator_list", []):
                if not isinstance(d, ast.Call) or (call_name(d) or "").split(".")[-1] not in ("task", "scheduler_task"):
                    continue
                cv = kwarg(d, "check_valid")
                if cv is None:
                    continue
                shallow = "SHALLOW" in src(cv) or (isinstance(cv, ast.Constant) and str(cv.value).lower() == "shallow")
                if not shallow:
                    continue
                nsh += 1
                r7.check(
                    (mod.rel, q) in SHALLOW_OK,
                    f"{mod.rel}:{q}:check_valid-shallow",
                    f"the library task {q} is declared check_valid=SHALLOW: when it is reached with a recorded call node from an earlier execution its whole sub-tree is replaced by the recorded value "
                    "(ultimate reduction), so tasks beneath it that must run again (cache=False) are skipped -- an expression evaluated through subrun with exported options returns a stale result where direct "
                    "evaluation re-runs them",
                    mod.rel,
                    fn.lineno,
                )
    if nsh < 3:
        raise AnalysisError(f"only {nsh} SHALLOW-validated library tasks found (subrun, subrun_root_task, no_prov, script expected)", "check_valid")

    # ---- C38.8 (the obligations of C26.4, which this property depends on as well) ----
    from ..report import BorrowCtx
    from . import C26 as _borrowed_C26

    _borrowed_C26.run(BorrowCtx(ctx, {"C26.4": "C38.8"}))

    # ---- C38.9 the calling job's row exists before the task can run ------------------------------------------------
    # subrun(new_execution=False) makes the sub-scheduler look up the calling job (extend_run(parent_job_id=...)) through its own database
    # connection, from the executor's worker.  The parent writes that row in record_job_start: it must be written before the job is handed to
    # an executor, or the lookup races with the parent's commit and fails with `Unknown parent_job_id`.
    from ..cfg import CFG

    r9 = ctx.rule("C38.9", "record_job_start precedes every hand-off to an executor (for provenance-recording jobs)", floor=2)
    ex9 = m.func("Scheduler._exec_job_main_thread")
    jv9 = ex9.args.args[1].arg
    cfg9 = CFG(ex9)
    starts = {cfg9.node_of(c) for c in calls_in(ex9, shallow=True) if call_name(c) == "self.backend.record_job_start"}
    skip = set()
    for n in cfg9.nodes:
        if n.kind == "test" and isinstance(n.ast, ast.expr) and src(n.ast) == f"{jv9}.recording_provenance()":
            skip |= set(cfg9.edge_nodes(n, "F"))
    subs = [c for c in calls_in(ex9, shallow=True) if isinstance(c.func, ast.Attribute) and c.func.attr in ("submit", "submit_script") and c.args and src(c.args[0]) == jv9]
    if not starts or len(subs) < 2:
        raise AnalysisError(f"exec handler: record_job_start ({len(starts)}) / executor submit calls ({len(subs)}) not found", "Scheduler._exec_job_main_thread")
    for c in subs:
        # recording jobs: no path from entry to the hand-off avoids record_job_start, except through the `not recording_provenance()` edge
        ok9 = cfg9.must_pass(cfg9.entry, starts | skip, targets=[cfg9.node_of(c)])
        r9.check(
            ok9 and _start_before(cfg9, starts, cfg9.node_of(c)),
            f"{m.rel}:Scheduler._exec_job_main_thread:start-before-{c.func.attr}",
            f"`{src(c)[:40]}` can be reached before backend.record_job_start({jv9}): the executor may run the task before the Job row is committed; subrun(new_execution=False) then "
            "fails with `Unknown parent_job_id` (the sub-scheduler reads the row through its own connection) where a direct evaluation returns the result",
            m.rel,
            c.lineno,
        )


def _start_before(cfg, starts, target) -> bool:
    """No start node is reachable *from* the target (the start is not after the hand-off), and some start can reach the target."""
    after = any(cfg.can_reach(target, s) for s in starts)
    before = any(cfg.can_reach(s, target) for s in starts)
    return before and not after
