"""
Decision tables read off the syntax tree and evaluated over an explicitly
enumerated finite abstract domain.  Truth-table enumeration, not solving.

 * py_eval    : Python boolean expressions over a dict environment (2-valued)
 * sql_eval   : SQLAlchemy column expressions with SQL three-valued logic (None = NULL)
 * decision_list : an if/elif/else chain that assigns/returns one constant per arm
"""

from __future__ import annotations

import ast
from typing import Any, Callable, Optional

from .core import AnalysisError, dotted, last_attr, src

UNKNOWN = object()


def py_eval(e: ast.AST, env: dict[str, Any]) -> Any:
    """Evaluate a side-effect-free Python expression built from names/attributes in env,
    constants, not/and/or, comparisons, `in` with set/list/tuple displays."""
    if isinstance(e, ast.Constant):
        return e.value
    if isinstance(e, (ast.Name, ast.Attribute)):
        d = dotted(e)
        if d in env:
            return env[d]
        raise AnalysisError(f"decision table: unknown name {d}")
    if isinstance(e, ast.UnaryOp) and isinstance(e.op, ast.Not):
        return not py_eval(e.operand, env)
    if isinstance(e, ast.BoolOp):
        vals = [py_eval(v, env) for v in e.values]
        return all(vals) if isinstance(e.op, ast.And) else any(vals)
    if isinstance(e, (ast.Set, ast.List, ast.Tuple)):
        return [py_eval(x, env) for x in e.elts]
    if isinstance(e, ast.Compare):
        left = py_eval(e.left, env)
        res = True
        for op, comp in zip(e.ops, e.comparators):
            right = py_eval(comp, env)
            if isinstance(op, ast.Eq):
                ok = left == right
            elif isinstance(op, ast.NotEq):
                ok = left != right
            elif isinstance(op, ast.Is):
                ok = left is right or (left is None and right is None)
            elif isinstance(op, ast.IsNot):
                ok = not (left is right or (left is None and right is None))
            elif isinstance(op, ast.In):
                ok = left in right
            elif isinstance(op, ast.NotIn):
                ok = left not in right
            else:
                raise AnalysisError(f"decision table: unsupported comparison {src(e)}")
            res = res and ok
            left = right
        return res
    raise AnalysisError(f"decision table: unsupported expression {src(e)}")


def k_and(a, b):
    if a is False or b is False:
        return False
    if a is None or b is None:
        return None
    return True


def k_or(a, b):
    if a is True or b is True:
        return True
    if a is None or b is None:
        return None
    return False


def k_not(a):
    return None if a is None else (not a)


def sql_eval(e: ast.AST, cols: dict[str, Any], consts: dict[str, Any]) -> Any:
    """Three-valued value of a SQLAlchemy boolean expression for one abstract row."""

    def val(x: ast.AST) -> Any:
        if isinstance(x, ast.Constant):
            return x.value
        d = dotted(x)
        if d in cols:
            return cols[d]
        if d in consts:
            return consts[d]
        raise AnalysisError(f"sql table: unknown operand {src(x)}")

    if isinstance(e, ast.BinOp) and isinstance(e.op, ast.BitAnd):
        return k_and(sql_eval(e.left, cols, consts), sql_eval(e.right, cols, consts))
    if isinstance(e, ast.BinOp) and isinstance(e.op, ast.BitOr):
        return k_or(sql_eval(e.left, cols, consts), sql_eval(e.right, cols, consts))
    if isinstance(e, ast.UnaryOp) and isinstance(e.op, ast.Invert):
        return k_not(sql_eval(e.operand, cols, consts))
    if isinstance(e, ast.Compare) and len(e.ops) == 1:
        a, b = val(e.left), val(e.comparators[0])
        if a is None or b is None:
            return None
        if isinstance(e.ops[0], ast.Eq):
            return a == b
        if isinstance(e.ops[0], ast.NotEq):
            return a != b
        raise AnalysisError(f"sql table: unsupported comparison {src(e)}")
    if isinstance(e, ast.Call):
        la = last_attr(e)
        if la in ("is_", "isnot", "is_not") and isinstance(e.func, ast.Attribute) and len(e.args) == 1:
            a, b = val(e.func.value), val(e.args[0])
            same = (a is None and b is None) or (a is not None and b is not None and a == b)
            return same if la == "is_" else (not same)
        if la in ("and_", "or_") and e.args:
            vals = [sql_eval(a, cols, consts) for a in e.args]
            out = vals[0]
            for v in vals[1:]:
                out = k_and(out, v) if la == "and_" else k_or(out, v)
            return out
        if la == "not_" and len(e.args) == 1:
            return k_not(sql_eval(e.args[0], cols, consts))
        if la in ("in_", "notin_", "not_in") and isinstance(e.func, ast.Attribute) and len(e.args) == 1 and isinstance(e.args[0], (ast.List, ast.Tuple, ast.Set)):
            a = val(e.func.value)
            if a is None:
                return None
            r = a in [val(x) for x in e.args[0].elts]
            return r if la == "in_" else (not r)
    if isinstance(e, ast.Attribute) or isinstance(e, ast.Name):
        v = val(e)  # bare boolean column
        return v
    raise AnalysisError(f"sql table: unsupported expression {src(e)}")


def if_chain(fn: ast.AST) -> list[tuple[Optional[ast.AST], list[ast.stmt]]]:
    """The top-level if/elif/else chain of a function body: [(test or None for else, body), ...]."""
    chain = None
    for st in fn.body:
        if isinstance(st, ast.If):
            chain = st
            break
    if chain is None:
        raise AnalysisError(f"{getattr(fn, 'name', '?')}: no if/elif chain found")
    arms = []
    cur: Optional[ast.If] = chain
    rest = list(fn.body[fn.body.index(chain) + 1 :])

    def leaves(body) -> bool:
        return bool(body) and isinstance(body[-1], (ast.Return, ast.Raise))

    while cur is not None:
        arms.append((cur.test, cur.body))
        if len(cur.orelse) == 1 and isinstance(cur.orelse[0], ast.If):
            cur = cur.orelse[0]
        elif cur.orelse:
            arms.append((None, cur.orelse))
            cur = None
        elif leaves(cur.body) and rest:
            # guard-clause spelling: `if a: return x` followed by the remaining arms as plain statements
            if isinstance(rest[0], ast.If):
                cur, rest = rest[0], rest[1:]
            else:
                arms.append((None, rest))
                cur = None
        else:
            cur = None
    return arms


def arm_value(body: list[ast.stmt]) -> ast.AST:
    """The value an arm produces: `return X`, or `<target> = X`; raises for `raise`."""
    for st in body:
        if isinstance(st, ast.Return) and st.value is not None:
            return st.value
        if isinstance(st, ast.Raise):
            return st
    assigns = [st for st in body if isinstance(st, ast.Assign)]
    if assigns:
        return assigns[-1].value  # an arm that ends by assigning its result (helper locals before it are inlined by the caller)
    raise AnalysisError("decision arm with no value")


def inline_single_assignments(fn: ast.AST, e: ast.AST, depth: int = 0) -> ast.AST:
    """Replace, in a copy of expression e, every local Name that fn assigns exactly once (plain `name = expr`, at any depth, never
    re-bound by for/with/aug-assignment/parameters) by the assigned expression, recursively.  Purely syntactic; used so that decision
    tables are read the same whether sub-terms are written inline or named first."""
    import copy

    params = {a.arg for a in fn.args.args + fn.args.kwonlyargs + fn.args.posonlyargs}
    counts: dict[str, int] = {}
    values: dict[str, ast.AST] = {}
    for n in ast.walk(fn):
        if isinstance(n, ast.Assign):
            for t in n.targets:
                for x in ast.walk(t):
                    if isinstance(x, ast.Name):
                        counts[x.id] = counts.get(x.id, 0) + 1
                        if isinstance(t, ast.Name) and len(n.targets) == 1:
                            values[x.id] = n.value
        elif isinstance(n, (ast.AugAssign, ast.AnnAssign, ast.For, ast.AsyncFor, ast.NamedExpr, ast.comprehension)):
            tg = n.target
            for x in ast.walk(tg):
                if isinstance(x, ast.Name):
                    counts[x.id] = counts.get(x.id, 0) + 2
        elif isinstance(n, (ast.With, ast.AsyncWith)):
            for it in n.items:
                if it.optional_vars is not None:
                    for x in ast.walk(it.optional_vars):
                        if isinstance(x, ast.Name):
                            counts[x.id] = counts.get(x.id, 0) + 2
    single = {k: v for k, v in values.items() if counts.get(k) == 1 and k not in params}

    class Sub(ast.NodeTransformer):
        def visit_Name(self, node):
            if isinstance(node.ctx, ast.Load) and node.id in single and depth < 8:
                return inline_single_assignments(fn, single[node.id], depth + 1)
            return node

    return ast.fix_missing_locations(Sub().visit(copy.deepcopy(e)))
