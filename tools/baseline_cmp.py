#!/venv/bin/python
"""Run the repo's baseline test command (guard off) and compare with /root/.vp/BASELINE.json stable_pass.
Usage: baseline_cmp.py [junit.xml]   (runs pytest when no junit file is given). Exit 0 iff every stable_pass test passed."""
import json, subprocess, sys, tempfile, os
import xml.etree.ElementTree as ET

def passed(junit):
    ok = set()
    for tc in ET.parse(junit).getroot().iter("testcase"):
        if not any(ch.tag in ("failure", "error", "skipped") for ch in tc):
            ok.add(f"{tc.get('classname')}::{tc.get('name')}")
    return ok

if len(sys.argv) > 1:
    junit = sys.argv[1]
else:
    junit = tempfile.mktemp(suffix=".junit.xml", dir="/var/tmp")
    subprocess.run(["/venv/bin/python", "-m", "pytest", "-ra", "-q", "-p", "no:cacheprovider", "--timeout=900",
                    "--continue-on-collection-errors", f"--junitxml={junit}"], cwd="/repo",
                   stdout=subprocess.DEVNULL, stderr=subprocess.DEVNULL, env={k: v for k, v in os.environ.items() if k != "REDUN_VERIF"})
base = json.load(open("/root/.vp/BASELINE.json"))
stable = set(base["stable_pass"])
ok = passed(junit)
missing = sorted(stable - ok)
print(f"stable_pass={len(stable)} passed_now={len(ok)} stable_not_passing={len(missing)}")
for m in missing[:40]:
    print("  NOT PASSING:", m)
sys.exit(1 if missing else 0)
