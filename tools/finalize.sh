#!/bin/bash
# finalize.sh: refresh reference snapshot, evidence (thorough tier, all claimed properties), MANIFEST.json and the generated appendix of DESIGN.md
cd /verif
tools/snapshot_reference.py > /dev/null 2>&1
IDS=$(/venv/bin/python -c "import json; print(' '.join(c['property_id'] for c in json.load(open('/verif/MANIFEST.json'))['checks']))")
echo $IDS | tr ' ' '\n' | xargs -P 6 -I{} sh -c './check {} --tier thorough > /tmp/final_{}.out 2>&1; echo "{} exit $?"' | sort | grep -v "exit 0"
/venv/bin/python tools/gen_manifest.py | tail -1
/venv/bin/python - <<'PY'
import subprocess,re
d=open('/verif/DESIGN.md').read()
marker='\n## Appendix A. Generated tables (tools/gen_design_tables.py)\n'
i=d.find(marker)
if i>=0: d=d[:i]
t=subprocess.run(['/venv/bin/python','/verif/tools/gen_design_tables.py'],capture_output=True,text=True).stdout
open('/verif/DESIGN.md','w').write(d.rstrip('\n')+'\n'+marker+'\n'+t)
PY
python3-vt - <<'PY'
import json, jsonschema, glob
m=json.load(open('/verif/MANIFEST.json'))
jsonschema.validate(m, json.load(open('/root/.vp/MANIFEST.schema.json')))
es=json.load(open('/root/.vp/EVIDENCE.schema.json'))
n=0
for p in glob.glob('/verif/evidence/C*.json'):
    jsonschema.validate(json.load(open(p)), es); n+=1
print('schemas ok:', len(m['checks']), 'checks,', n, 'evidence files')
PY
