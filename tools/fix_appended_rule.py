#!/venv/bin/python
"""fix_appended_rule.py <rule file> <marker>: move the block that starts at the line containing <marker> (appended at the end of the file) to the
end of run(), i.e. in front of the first top-level def that follows `def run(ctx):`."""
import re, sys
p, marker = sys.argv[1], sys.argv[2]
s = open(p).read()
i = s.rindex(marker)
i = s.rfind("\n", 0, i)
block = s[i:]
s = s[:i].rstrip("\n") + "\n"
r = s.index("def run(ctx):")
m = re.search(r"\n\n\ndef ", s[r:])
if m:
    j = r + m.start()
    s = s[:j] + block.rstrip("\n") + s[j:]
else:
    s = s + block
open(p, "w").write(s)
