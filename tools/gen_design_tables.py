#!/venv/bin/python
"""Print markdown tables (known findings, fixed list, seeds) generated from known_findings.json and seeded/*/meta.json,
for pasting into DESIGN.md."""
import glob, json, os
kf = json.load(open("/verif/known_findings.json"))
print("#### known findings\n\n| property | rule | construct | what fails (abridged) | reproduction |\n|---|---|---|---|---|")
for k in kf["known"]:
    c = k["construct"].split(":", 1)[1] if ":" in k["construct"] else k["construct"]
    print(f"| {k['property']} | {k['rule']} | `{c}` | {k['what_fails'][:170].replace('|','/')}... | `{k.get('repro','')}` |")
print("\n#### fixed\n")
for f in kf["fixed"]:
    print("* " + f[len("fixed: "):])
print("\n#### seeds\n\n| seed | breaks | caught at first run | checks reporting now | suite | strengthening |\n|---|---|---|---|---|---|")
for d in sorted(glob.glob("/verif/seeded/*/")):
    m = json.load(open(os.path.join(d, "meta.json")))
    now = ", ".join(sorted(m.get("checks_reporting", {}).keys()))
    first = m.get("caught_at_first_run")
    print(f"| `{m['seed']}` | {m['property']} | {first if first is not None else ''} | {now} | {'pass' if m.get('suite_passes') else m.get('suite_passes')} | {m.get('strengthening','-')} |")
