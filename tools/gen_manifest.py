#!/venv/bin/python
"""Generate /verif/MANIFEST.json from the claim table below (one entry per property with a rule module)."""
import json
import os
import sys

HERE = os.path.dirname(os.path.dirname(os.path.abspath(__file__)))
sys.path.insert(0, HERE)
from sa.claims import CLAIMS, NOT_APPLICABLE  # noqa: E402

props = [json.loads(l)["id"] for l in open(os.path.join(HERE, "properties.jsonl"))]
checks = []
na = []
import importlib

kf = json.load(open(os.path.join(HERE, "known_findings.json")))
for pid in props:
    if pid in CLAIMS and os.path.exists(os.path.join(HERE, "sa", "rules", f"{pid}.py")):
        c = dict(CLAIMS[pid])
        expl = getattr(importlib.import_module(f"sa.rules.{pid}"), "EXPLANATION", "")
        nk = sum(1 for k in kf.get("known", []) if k["property"] == pid)
        nf = sum(1 for f in kf.get("fixed", []) if f"property={pid} " in f)
        c["text"] = c["text"] + " Rules as built: " + expl
        c["note"] = (
            c["note"]
            + f" Current bookkeeping (known_findings.json): {nk} known finding(s) recorded for this property, {nf} defect(s) of this property repaired in /repo by `fix:` commits."
            + " The thorough tier additionally runs this property's mutation kill matrix and a negative matrix (the same rules on a behaviour-preserving rewrite of the whole tree must stay silent)."
        )
        checks.append(
            {
                "property_id": pid,
                "quick_cmd": f"./check {pid} --tier quick",
                "thorough_cmd": f"./check {pid} --tier thorough",
                "evidence_file": f"evidence/{pid}.json",
                "replay_cmd_template": f"./check {pid} --replay {{path}}",
                "engine": "sa",
                "level_claimed": {"category": "other", "text": c["text"], "design_ref": f"DESIGN.md section 4, {pid}"},
                "level_note": c["note"],
                "technique": c["technique"],
            }
        )
    else:
        na.append({"property_id": pid, "reason": NOT_APPLICABLE.get(pid, "static rules for this property are not built yet (work in progress); nothing is claimed")})

manifest = {
    "version": 1,
    "setup_cmd": "true",
    "hooks": {
        "guard": "REDUN_VERIF",
        "enable": "none needed: the checks read /repo's source; no instrumentation exists in insitro/redun",
        "baseline_off_cmd": "cd /repo && /venv/bin/python -m pytest -ra -q -p no:cacheprovider --timeout=900 --continue-on-collection-errors",
        "source_commits": [],
        "add_only": True,
    },
    "engines": [
        {
            "name": "sa",
            "path": "sa/",
            "serves_properties": [c["property_id"] for c in checks],
            "kind_free_text": "repository-specific static analysis over Python ASTs (stdlib ast only): per-function CFG with edge dominance, "
            "job-lifecycle abstract interpretation, class-hierarchy/method resolution, effect and commit-point summaries, decision-table "
            "enumeration, symbolic list-size conservation, union-set/alias interpretation, who-may-write/call rules, sibling cross-checks; a semantics-preserving "
            "normalisation pre-pass (no-ops, local annotations, branch polarity, adjacent temporaries, local names) runs on the in-memory AST before the rules; "
            "thorough tier adds a mutation kill matrix and a refactoring (negative) matrix on scratch copies",
        }
    ],
    "checks": checks,
    "not_applicable": na,
    "notes": "Static analysis only: every verdict is computed from /repo's current source without importing or running redun. "
    "Exit 2 (ANALYSIS-ERROR) means an anchor vanished; it is never a verdict. known_findings.json lists genuine defects recorded or fixed.",
}
with open(os.path.join(HERE, "MANIFEST.json"), "w") as f:
    json.dump(manifest, f, indent=1)
print(f"claimed={len(checks)} not_applicable={len(na)}")
