#!/bin/bash
# For every stored seed: apply the patch to a scratch copy of /repo/redun and run the seed's own property check; print exit codes (1 = reported).
for d in /verif/seeded/${1:-}*/; do
  n=$(basename $d); p=${n%%-*}
  T=$(mktemp -d /var/tmp/oc_XXXXXX)
  rsync -a --exclude tests --exclude __pycache__ /repo/redun $T/ && (cd $T && patch -p1 -s < $d/patch.diff) || { echo "$n PATCHFAIL"; rm -rf $T; continue; }
  /verif/check $p --root $T --no-evidence > /dev/null 2>&1; echo "$n exit $?"
  rm -rf $T
done
