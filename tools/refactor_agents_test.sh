#!/bin/bash
# refactor_agents_test.sh [ID..]: negative test with behaviour-preserving refactorings written by sub-agents (refactors/<ID>/patch.diff, made
# against the /repo commit named in refactors/README.md).  Each patch is applied to a scratch copy of /repo/redun and all 36 checks are run;
# prints, per refactoring, the checks that are not silent (exit 1 = false alarm, exit 2 = analysis gave up on an unknown shape).
cd /verif
IDS_ALL=$(/venv/bin/python -c "import json; print(' '.join(c['property_id'] for c in json.load(open('/verif/MANIFEST.json'))['checks']))")
for d in ${@:-$(ls refactors | grep '^C')}; do
  p=/verif/refactors/$d/patch.diff
  [ -f $p ] || continue
  T=$(mktemp -d /var/tmp/rfa_XXXXXX)
  rsync -a --exclude tests --exclude __pycache__ /repo/redun $T/ && (cd $T && patch -p1 -s --no-backup-if-mismatch < $p) || { echo "$d PATCHFAIL"; rm -rf $T; continue; }
  out=$(echo $IDS_ALL | tr ' ' '\n' | xargs -P 8 -I{} sh -c "/verif/check {} --root $T --no-evidence > $T/out_{}.txt 2>&1; rc=\$?; [ \$rc -ne 0 ] && echo \"{}:exit\$rc\"" | sort | tr '\n' ' ')
  echo "$d: ${out:-silent}"
  rm -rf $T
done
