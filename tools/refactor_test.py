#!/venv/bin/python
"""refactor_test.py [PROP...] : run the checks on a behaviour-preserving refactoring (--transform=rename|invert|noops; default rename: all locals renamed, re-emitted through ast.unparse).
Every check must stay silent (exit 0)."""
import json, os, shutil, subprocess, sys
sys.path.insert(0, "/verif")
from sa.refactor import refactored_copy, TRANSFORMS
tname = "rename"
args = sys.argv[1:]
if args and args[0].startswith("--transform="):
    tname = args.pop(0).split("=", 1)[1]
tmp, n = refactored_copy("/repo", TRANSFORMS[tname])
print(f"transform {tname}: {n} sites rewritten in scratch copy {tmp}")
props = args or [c["property_id"] for c in json.load(open("/verif/MANIFEST.json"))["checks"]]
bad = 0
from concurrent.futures import ThreadPoolExecutor
def run(p):
    r = subprocess.run(["/verif/check", p, "--root", tmp, "--no-evidence"], capture_output=True, text=True, cwd="/verif")
    return p, r
with ThreadPoolExecutor(16) as ex:
    for p, r in ex.map(run, props):
        if r.returncode != 0:
            bad += 1
            lines = [l for l in r.stdout.splitlines() if l.startswith("  finding") or l.startswith("ANALYSIS") or "Error" in l]
            print(f"{p}: exit {r.returncode}")
            for l in lines[:6]:
                print("   ", l[:230])
            if not lines:
                print("   ", (r.stdout + r.stderr)[-400:])
shutil.rmtree(tmp)
print(f"{len(props) - bad}/{len(props)} checks silent on the refactored copy")
sys.exit(1 if bad else 0)
