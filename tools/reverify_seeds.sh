#!/bin/bash
# Quick re-verification of every seed against the current /repo HEAD (patch applies, demo fails patched / passes unpatched, which checks report).
for d in /verif/seeded/*/; do
  n=$(basename $d)
  mkdir -p /var/tmp/rs_$n/SEED && cp $d/* /var/tmp/rs_$n/SEED/
  /verif/tools/verify_seed.py $n /var/tmp/rs_$n 2>&1 | grep -E "patch_applies|demonstration_confirmed|caught_by_own|checks reporting" | tr '\n' ' '
  echo " <- $n"
  rm -rf /var/tmp/rs_$n
done
