#!/venv/bin/python
"""Store a compressed snapshot of /repo/redun (non-test) sources as the *naming reference* used by sa/normalize.py.
The snapshot is used only to map consistently renamed local variables back to the names the rules were written against;
it never decides a property (when a function does not unify with its reference, the rules see the real names)."""
import gzip, json, os
out = {}
for dp, dn, fns in os.walk("/repo/redun"):
    if "/tests" in dp or "__pycache__" in dp:
        continue
    for f in sorted(fns):
        if f.endswith(".py"):
            p = os.path.join(dp, f)
            out[os.path.relpath(p, "/repo")] = open(p).read()
os.makedirs("/verif/sa/reference", exist_ok=True)
with gzip.open("/verif/sa/reference/names.json.gz", "wt") as f:
    json.dump(out, f)
print(len(out), "modules snapshotted")
