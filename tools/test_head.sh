#!/bin/bash
# Run the repo's baseline suite on /repo's HEAD (or given ref) in a scratch worktree; compare with BASELINE stable_pass.
set -u
REF=${1:-HEAD}
SHA=$(git -C /repo rev-parse --short "$REF")
WT=/var/tmp/rt_$SHA
git -C /repo worktree remove --force "$WT" 2>/dev/null
git -C /repo worktree add -q --detach "$WT" "$REF" || exit 3
cd "$WT"
/venv/bin/python -m pytest -ra -q -p no:cacheprovider --timeout=900 --continue-on-collection-errors -x --maxfail=100000 --junitxml=/var/tmp/rt_$SHA.junit.xml > /var/tmp/rt_$SHA.log 2>&1
/verif/tools/baseline_cmp.py /var/tmp/rt_$SHA.junit.xml > /var/tmp/rt_$SHA.result 2>&1
RC=$?
cat /var/tmp/rt_$SHA.result
cd /
git -C /repo worktree remove --force "$WT"
exit $RC
