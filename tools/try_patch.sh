#!/bin/bash
# try_patch.sh <patch.diff> <PROP>... : apply a patch to a scratch copy of /repo/redun and run the given checks on it
P=$(realpath $1); shift
T=$(mktemp -d /var/tmp/tp_XXXXXX)
mkdir -p $T && rsync -a --exclude tests --exclude __pycache__ /repo/redun $T/ && (cd $T && patch -p1 -s < $P) || { echo "patch failed"; rm -rf $T; exit 3; }
for p in "$@"; do /verif/check $p --root $T --no-evidence 2>&1 | grep -E "finding|ANALYSIS|^OK|^    " | cut -c1-400; done
rm -rf $T
