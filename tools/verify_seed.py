#!/venv/bin/python
"""verify_seed.py <seed-name> <source-dir-with-SEED> [--full]
Confirms a seeded defect independently: fresh scratch worktree of /repo HEAD, demo passes unpatched, fails patched;
records which /verif checks report a violation on the patched tree; with --full also runs the whole suite on the patched tree
and compares with BASELINE stable_pass. Stores patch.diff, demo.py, notes.md and meta.json under /verif/seeded/<seed-name>/."""
import json, os, shutil, subprocess, sys

name, srcdir = sys.argv[1], sys.argv[2]
full = "--full" in sys.argv
prop = name.split("-")[0]
seed = os.path.join(srcdir, "SEED")
dest = f"/verif/seeded/{name}"
os.makedirs(dest, exist_ok=True)
for f in ("patch.diff", "demo.py", "notes.md"):
    if os.path.exists(os.path.join(seed, f)):
        shutil.copy(os.path.join(seed, f), dest)
wt = f"/var/tmp/vs_{name}"
subprocess.run(["git", "-C", "/repo", "worktree", "remove", "--force", wt], capture_output=True)
subprocess.run(["git", "-C", "/repo", "worktree", "add", "-q", "--detach", wt, "HEAD"], check=True)
head = subprocess.run(["git", "-C", "/repo", "rev-parse", "--short", "HEAD"], capture_output=True, text=True).stdout.strip()
shutil.copytree(seed, os.path.join(wt, "SEED"))


def demo():
    r = subprocess.run(["/venv/bin/python", "-m", "pytest", "-q", "-p", "no:cacheprovider", "-x", "SEED/demo.py"], cwd=wt, capture_output=True, text=True, timeout=600)
    if "no tests ran" in r.stdout or r.returncode == 5:
        r = subprocess.run(["/venv/bin/python", "SEED/demo.py"], cwd=wt, capture_output=True, text=True, timeout=600, env={**os.environ, "PYTHONPATH": wt})
    return r.returncode, (r.stdout + r.stderr)[-600:]


meta = {"property": prop, "seed": name, "repo_head": head}
rc0, out0 = demo()
meta["demo_unpatched_rc"] = rc0
ap = subprocess.run(["git", "apply", os.path.join(dest, "patch.diff")], cwd=wt, capture_output=True, text=True)
meta["patch_applies"] = ap.returncode == 0
rc1, out1 = demo()
meta["demo_patched_rc"] = rc1
meta["demonstration_confirmed"] = rc0 == 0 and rc1 != 0 and ap.returncode == 0
# our checks on the patched tree
props = [c["property_id"] for c in json.load(open("/verif/MANIFEST.json"))["checks"]]
caught = {}
from concurrent.futures import ThreadPoolExecutor


def _run_check(p):
    return p, subprocess.run(["/verif/check", p, "--root", wt, "--no-evidence"], cwd="/verif", capture_output=True, text=True)


with ThreadPoolExecutor(8) as pool:
    for p, r in pool.map(_run_check, props):
        if r.returncode != 0:
            lines = [l for l in r.stdout.splitlines() if l.startswith("  finding") or l.startswith("ANALYSIS-ERROR")]
            caught[p] = {"exit": r.returncode, "reports": lines[:4]}
meta["checks_reporting"] = caught
meta["caught_by_own_property"] = caught.get(prop, {}).get("exit") == 1
if full:
    r = subprocess.run(["/venv/bin/python", "-m", "pytest", "-ra", "-q", "-p", "no:cacheprovider", "--timeout=900", "--continue-on-collection-errors", "--ignore=SEED", f"--junitxml=/var/tmp/vs_{name}.junit.xml"], cwd=wt, capture_output=True, text=True)
    c = subprocess.run(["/verif/tools/baseline_cmp.py", f"/var/tmp/vs_{name}.junit.xml"], capture_output=True, text=True)
    meta["suite"] = c.stdout.strip().splitlines()
    meta["suite_passes"] = c.returncode == 0
    missing = [l.split("NOT PASSING:", 1)[1].strip() for l in meta["suite"] if "NOT PASSING:" in l]
    if missing and len(missing) <= 12:
        # timing-sensitive tests (k8s / gcp 2-second waits) flake when the machine is loaded: re-run the failures alone, twice at most
        def nodeid(t):
            cls, name = t.split("::", 1)
            parts = cls.split(".")
            i = max(k for k, x in enumerate(parts) if x.startswith("test_"))
            return "/".join(parts[: i + 1]) + ".py" + "".join("::" + x for x in parts[i + 1 :]) + "::" + name
        still = missing
        for attempt in range(2):
            rr = subprocess.run(["/venv/bin/python", "-m", "pytest", "-q", "-p", "no:cacheprovider", "--timeout=900", "--ignore=SEED"] + [nodeid(t) for t in still], cwd=wt, capture_output=True, text=True)
            if rr.returncode == 0:
                still = []
                break
        meta["suite_rerun_of_failures"] = {"tests": missing, "pass_when_rerun_alone": not still, "tail": rr.stdout[-300:]}
        if not still:
            meta["suite_passes"] = True
    os.remove(f"/var/tmp/vs_{name}.junit.xml")
subprocess.run(["git", "-C", "/repo", "worktree", "remove", "--force", wt], capture_output=True)
old = {}
if os.path.exists(os.path.join(dest, "meta.json")):
    old = json.load(open(os.path.join(dest, "meta.json")))
old.update(meta)
json.dump(old, open(os.path.join(dest, "meta.json"), "w"), indent=1)
print(json.dumps({k: v for k, v in old.items() if k != "checks_reporting"}, indent=1))
print("checks reporting:", {k: v["exit"] for k, v in caught.items()})
if not meta["demonstration_confirmed"]:
    print("UNPATCHED:", out0[-300:], "\nPATCHED:", out1[-300:])
