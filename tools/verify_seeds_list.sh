#!/bin/bash
# verify_seeds_list.sh <name>...: full-suite confirmation (tools/verify_seed.py --full) for the named stored seeds that lack suite_passes=true
for n in "$@"; do
  d=/verif/seeded/$n
  if /venv/bin/python -c "import json,sys; m=json.load(open('$d/meta.json')); sys.exit(0 if m.get('suite_passes') is True else 1)" 2>/dev/null; then echo "$n already verified"; continue; fi
  mkdir -p /var/tmp/sd_$n/SEED && cp $d/* /var/tmp/sd_$n/SEED/
  /verif/tools/verify_seed.py $n /var/tmp/sd_$n --full 2>&1 | grep -E "suite_passes|demonstration_confirmed|caught_by_own" | tr '\n' ' '
  echo " <- $n"
  rm -rf /var/tmp/sd_$n
done
