#!/bin/bash
# verify_seeds_range.sh <from-prefix> <to-prefix>: like verify_all_seeds_full.sh for seeds whose name is in [from, to) (string order)
for d in /verif/seeded/*/; do
  n=$(basename $d)
  if [[ "$n" < "$1" || ! "$n" < "$2" ]]; then continue; fi
  if /venv/bin/python -c "import json,sys; m=json.load(open('$d/meta.json')); sys.exit(0 if m.get('suite_passes') is True else 1)" 2>/dev/null; then echo "$n already verified"; continue; fi
  mkdir -p /var/tmp/sd_$n/SEED && cp $d/* /var/tmp/sd_$n/SEED/
  /verif/tools/verify_seed.py $n /var/tmp/sd_$n --full 2>&1 | grep -E "suite_passes|demonstration_confirmed|caught_by_own" | tr '\n' ' '
  echo " <- $n"
  rm -rf /var/tmp/sd_$n
done
